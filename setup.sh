#!/bin/sh
# Build the fact driver and prime the dependency cache (offline). Run once after a fresh restore.
set -e
cd "$(dirname "$0")"
export CARGO_NET_OFFLINE=true
(cd engine/driver && cargo +nightly build --release --offline)
# prime: one extraction per configuration on the current /repo tree (builds the ~330 dependencies once)
python3 - <<'PY'
import sys
sys.path.insert(0, 'engine/rules')
import runner
for cfg in ('dbg', 'rel'):
    p, h, fresh = runner.extract_facts(cfg, quiet=False)
    print('facts', cfg, p, 'fresh' if fresh else 'cached')
PY
