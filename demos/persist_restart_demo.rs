use saorsa_core::persistent_state::{FlushStrategy, PersistentStateManager, StateConfig};
use serde::{Deserialize, Serialize};

#[derive(Debug, Clone, PartialEq, Serialize, Deserialize)]
struct V {
    id: u64,
}

#[tokio::test]
async fn restart_after_rotation_and_checkpoint_recovers_everything() {
    let dir = tempfile::TempDir::new().unwrap();
    let config = StateConfig {
        state_dir: dir.path().to_path_buf(),
        flush_strategy: FlushStrategy::Always,
        ..Default::default()
    };
    {
        let m = PersistentStateManager::<V>::new(config.clone()).await.unwrap();
        // 3500 upserts on 7 keys: three rotations, most likely within one second
        for i in 0..3500u64 {
            m.upsert(format!("k{}", i % 7), V { id: i }).await.unwrap();
        }
    }
    let names: Vec<String> = std::fs::read_dir(dir.path())
        .unwrap()
        .map(|e| e.unwrap().file_name().to_string_lossy().to_string())
        .collect();
    println!("files: {names:?}");
    {
        let m = PersistentStateManager::<V>::new(config.clone()).await.unwrap();
        for k in 0..7u64 {
            let want = 3500 - 7 + k;
            assert_eq!(m.get(&format!("k{k}")).unwrap(), Some(V { id: want }), "key k{k}");
        }
        let st = m.recovery_stats().unwrap();
        println!("recovered={} failed={}", st.entries_recovered, st.entries_failed);
        assert_eq!(st.entries_recovered, 3500);
        m.checkpoint().await.unwrap();
        m.upsert("late".to_string(), V { id: 9 }).await.unwrap();
    }
    let m = PersistentStateManager::<V>::new(config).await.unwrap();
    let st = m.recovery_stats().unwrap();
    assert_eq!(st.snapshots_processed, 1);
    assert_eq!(m.get("late").unwrap(), Some(V { id: 9 }));
    assert_eq!(m.get("k0").unwrap(), Some(V { id: 3493 }));
}
