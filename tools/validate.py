#!/usr/bin/env python3
import json, glob, sys
import jsonschema
jsonschema.validate(json.load(open('/verif/MANIFEST.json')), json.load(open('/root/.vp/MANIFEST.schema.json')))
es = json.load(open('/root/.vp/EVIDENCE.schema.json'))
n = 0
for p in glob.glob('/verif/evidence/*.json'):
    jsonschema.validate(json.load(open(p)), es); n += 1
print('MANIFEST valid;', n, 'evidence files valid')
