#!/bin/sh
# mk_seed_wt.sh <tag> — scratch worktree /tmp/sw-<tag> of /repo HEAD with a copy of the pre-built target dir
set -e
tag=$1
wt=/tmp/sw-$tag
git -C /repo worktree add --detach $wt HEAD >/dev/null 2>&1
cp -a ${TEMPLATE_TARGET:-/tmp/seedconfirm/target} $wt/target
echo $wt
