#!/usr/bin/env python3
"""facts_for_patches.py <outdir> <patch> [<patch> ...] [--jobs N] — extract dbg facts for /repo + each patch (scratch copies),
for fast rule development:  outdir/<patch-basename>.jsonl"""
import os, sys, shutil, subprocess
sys.path.insert(0, '/verif/engine/rules')
import runner, selftest
import multiprocessing as mp

def one(args):
    i, outdir, patch = args
    selftest.TARGET[0] = selftest.worker_target(i % JOBS)
    d = selftest.scratch_copy()
    try:
        ok, msg = selftest.apply_patch(d, patch)
        if not ok:
            return patch, 'patch does not apply: ' + msg[:200]
        for cfg in CFGS:
            out = os.path.join(outdir, os.path.basename(patch).rsplit('.', 1)[0] + ('.jsonl' if cfg == 'dbg' else '.%s.jsonl' % cfg))
            if os.path.exists(out):
                os.remove(out)
            runner.extract_facts(cfg, repo=d, out=out, target_dir=selftest.TARGET[0])
        return patch, 'ok'
    except Exception as e:
        return patch, 'error: %s' % str(e)[:300]
    finally:
        shutil.rmtree(d, ignore_errors=True)

def run_chunk_star(ch):
    return [one(a) for a in ch]

JOBS = 4
CFGS = os.environ.get('FACT_CFGS', 'dbg').split(',')

if __name__ == '__main__':
    args = sys.argv[1:]
    if '--jobs' in args:
        k = args.index('--jobs'); JOBS = int(args[k + 1]); del args[k:k + 2]
    outdir = args[0]; patches = args[1:]
    os.makedirs(outdir, exist_ok=True)
    for i in range(JOBS):
        selftest.worker_target(i)
    # one process per target dir: chunk the patches by worker
    chunks = [[] for _ in range(JOBS)]
    for n, p in enumerate(patches):
        chunks[n % JOBS].append((n % JOBS, outdir, p))
    with mp.Pool(JOBS) as pool:
        for res in pool.imap_unordered(run_chunk_star, chunks):
            for p, st in res:
                print(os.path.basename(p), st); sys.stdout.flush()
