#!/bin/sh
# confirm_seed.sh <seed-dir> [--lib-tests]
# Triage helper (not part of any check): confirm a seeded change in a scratch worktree of /repo HEAD.
#   1. demo (an integration test file seed_demo_*.rs) passes on the clean worktree
#   2. patch.diff applies, the crate builds, the demo FAILS
#   3. with --lib-tests: `cargo test --offline --lib` passes with the change
# The worktree lives in $SCRATCH (default /tmp/seedconfirm) and shares one target dir across calls;
# remove it with `git -C /repo worktree remove --force $SCRATCH/wt; rm -rf $SCRATCH` when done.
set -u
SEED=$(cd "$1" && pwd)
LIBTESTS=${2:-}
SCRATCH=${SCRATCH:-/tmp/seedconfirm}
WT=$SCRATCH/wt
export CARGO_NET_OFFLINE=true
export CARGO_TARGET_DIR=$SCRATCH/target
mkdir -p "$SCRATCH"
if [ ! -d "$WT" ]; then
  git -C /repo worktree add --detach "$WT" HEAD >/dev/null 2>&1 || { echo "cannot create worktree"; exit 2; }
fi
cd "$WT" || exit 2
git checkout -q -- . && git clean -fdq tests/ src/ 2>/dev/null
DEMO=$(ls "$SEED"/seed_demo_*.rs 2>/dev/null | head -1)
[ -n "$DEMO" ] || { echo "no demo in $SEED"; exit 2; }
NAME=$(basename "$DEMO" .rs)
cp "$DEMO" tests/"$NAME".rs
echo "== [1] demo on the clean tree"
if cargo test --offline --test "$NAME" -- --test-threads 2 >"$SCRATCH/$NAME.clean.log" 2>&1; then
  echo "clean: PASS"; CLEAN=pass
else
  echo "clean: FAIL (see $SCRATCH/$NAME.clean.log)"; tail -15 "$SCRATCH/$NAME.clean.log"; CLEAN=fail
fi
echo "== [2] demo with patch.diff"
if ! git apply "$SEED/patch.diff"; then echo "patch does not apply"; exit 2; fi
if cargo test --offline --test "$NAME" -- --test-threads 2 >"$SCRATCH/$NAME.patched.log" 2>&1; then
  echo "patched: PASS (the change is not demonstrated)"; PATCHED=pass
else
  if grep -q "^error" "$SCRATCH/$NAME.patched.log" && ! grep -q "test result" "$SCRATCH/$NAME.patched.log"; then
    echo "patched: BUILD ERROR"; tail -20 "$SCRATCH/$NAME.patched.log"; PATCHED=builderror
  else
    echo "patched: FAIL (as wanted)"; grep -E "^test |panicked|test result" "$SCRATCH/$NAME.patched.log" | head -12; PATCHED=fail
  fi
fi
LT=skipped
if [ "$LIBTESTS" = "--lib-tests" ]; then
  echo "== [3] cargo test --lib with the change"
  rm -f tests/"$NAME".rs
  cargo test --offline --lib -- --test-threads 8 >"$SCRATCH/$NAME.lib.log" 2>&1
  grep -E "^test result" "$SCRATCH/$NAME.lib.log" | tail -2
  if grep -qE "^test result: ok" "$SCRATCH/$NAME.lib.log"; then LT=pass; else LT=fail; grep -E "^test .* FAILED|failed" "$SCRATCH/$NAME.lib.log" | head -20; fi
fi
git checkout -q -- . && git clean -fdq tests/ src/ 2>/dev/null
echo "SUMMARY seed=$(basename "$SEED") clean=$CLEAN patched=$PATCHED libtests=$LT"
