#!/usr/bin/env python3
"""benign_prompt.py <worktree> <tag> <PROP-ID>[,<PROP-ID>...] <file> [<file> ...] — brief for an independent sub-agent asked for
behaviour-PRESERVING refactorings (used to measure the false-alarm rate of the checks). Nothing from /verif's machinery is included."""
import json
import sys

wt, tag, pids = sys.argv[1], sys.argv[2], sys.argv[3].split(',')
files = sys.argv[4:]
props = {}
for l in open('/verif/properties.jsonl'):
    d = json.loads(l)
    if d['id'] in pids:
        props[d['id']] = d
ptxt = '\n\n'.join('PROPERTY %s: %s\n%s' % (p, props[p]['title'], props[p]['statement']) for p in pids)
print(f"""You are helping to evaluate a verification effort for the Rust crate saorsa-core (a P2P networking library: Kademlia-style DHT
over QUIC, EigenTrust reputation, post-quantum identities, WAL-backed persistent state, placement logic).

You have your own scratch git worktree of the repository at {wt} (a detached checkout; work ONLY inside that directory — never touch
/repo or /verif, and do not read anything under /verif). A pre-built cargo target directory is at {wt}/target (run cargo from {wt} with
CARGO_NET_OFFLINE=true and always pass --offline; there is no network). Incremental rebuilds after an edit to src/ take 1-3 minutes.
Use at most `-j 6` for cargo so that other jobs on this machine keep running.

The following behavioural properties of the library matter here:

{ptxt}

YOUR TASK: write SIX independent, realistic, BEHAVIOUR-PRESERVING refactorings of the code that implements these properties
(files: {', '.join(files)}). "Behaviour-preserving" means: for every input, schedule and history the observable behaviour relevant to the
properties above is exactly the same as before — same results, same state changes, same order of durable effects, same locking
discipline as far as any other task can observe. They should be the kind of clean-up a maintainer commits on an ordinary day, and
they should touch the code paths the properties are about (not dead code or comments only). Use a VARIETY of refactoring kinds across
the six, for example:
  - extract part of a function into a private helper (or inline a small helper into its only caller);
  - rename local variables / private functions / private fields;
  - rewrite `if let .. else` chains as `match` (or the reverse), invert a condition with early return, use `let .. else`;
  - replace a `for` loop by an iterator chain (or the reverse) with the same element order and the same short-circuiting;
  - flip a comparison (`a > b` -> `b < a`), replace `x.len() == 0` by `x.is_empty()`, `a.min(b)` by an if/else, `>= n + 1` by `> n`
    when types make them equal;
  - hoist a constant into a named `const`, or replace a named const used once by ... no, keep documented limits named;
  - reorder two INDEPENDENT checks or statements (be careful: they must really be independent);
  - introduce a small private struct / tuple struct / type alias to carry values between two steps;
  - add tracing / metrics calls, change log or error message wording;
  - change how a lock guard's scope is written (explicit block vs explicit `drop`) WITHOUT changing what is done under the lock.
Each refactoring must compile without new warnings and keep the unit tests of the touched modules passing
(`cargo test --offline --lib -j 6 -- --test-threads 6 <module filter>`).

DELIVERABLES — directory {wt}/BENIGN_OUT/ (create it). For i = 1..6:
  * b{{i}}.diff — `git diff -- src` of refactoring i ALONE against the clean checkout (reset src/ between refactorings with
    `git checkout -- src`), applicable with `git apply`;
  * b{{i}}.md — two or three sentences: what was refactored, and the argument why behaviour is unchanged.
Be honest: if, on reflection, a refactoring changes behaviour in some corner case (an extra lock acquisition that another task can
observe, a changed evaluation order with side effects, integer overflow differences, a different iteration order), do not deliver it —
replace it by another one. Finish with a short summary listing the six refactorings. Do not commit anything.""")
