#!/usr/bin/env python3
"""seed_prompt.py <PROP-ID> <worktree> <tag> [avoid text ...] — print the brief given to an independent sub-agent that is
asked for a property-breaking change. The brief contains the property text and the scratch worktree, nothing from /verif's
machinery."""
import json
import sys

pid, wt, tag = sys.argv[1], sys.argv[2], sys.argv[3]
avoid = sys.argv[4:]
prop = None
for l in open('/verif/properties.jsonl'):
    d = json.loads(l)
    if d['id'] == pid:
        prop = d
q = prop.get('quantifier', {})
anchors = (prop.get('anchors') or {}).get('files', [])
print(f"""You are helping to evaluate a verification effort for the Rust crate saorsa-core (a P2P networking library: Kademlia-style DHT
over QUIC, EigenTrust reputation, post-quantum identities, WAL-backed persistent state, placement logic).

You have your own scratch git worktree of the repository at {wt} (a detached checkout; work ONLY inside that directory — never touch
/repo or /verif, and do not read anything under /verif). A pre-built cargo target directory is at {wt}/target (use it: run cargo from
{wt} with CARGO_NET_OFFLINE=true, always pass --offline; there is no network). Building the lib tests takes a few minutes; incremental
rebuilds after an edit to src/ take 1-3 minutes. Use at most `-j 6` for cargo so that other jobs on this machine keep running.

THE PROPERTY (id {pid}): {prop['title']}

{prop['statement']}

It is meant to hold {q.get('text', '')}

YOUR TASK: write ONE realistic change to the library source (under {wt}/src) that BREAKS this property, such that
  * the crate still compiles (no new warnings-as-errors), and the existing unit tests still pass: at minimum run
    `cargo test --offline --lib -j 6 -- --test-threads 6 <module-filter>` for the modules you touched and, at the end, the whole
    `cargo test --offline --lib -j 6 -- --test-threads 6` once (about 1000 tests; a handful of tests that already fail on the
    unchanged tree, or timing-sensitive ones that fail only because this machine is loaded and pass when re-run alone, do not count
    against you);
  * the change looks like something a developer could plausibly commit (a refactor, an optimisation, a "simplification", a
    fast path, a caching layer, a reordered lock, a helper extracted with a subtly different condition ...), not sabotage with a
    comment saying so;
  * it needs something SPECIFIC to manifest — a particular interleaving, a crash or fault at a particular point, a multi-step
    sequence of operations, an unusual input, or two cooperating sites that each look fine alone. Do NOT write a change that ordinary
    use or the existing tests would expose at once;
  * you also write a demonstration: an integration test file `tests/seed_demo_{tag}.rs` (public API only, runnable with
    `cargo test --offline --test seed_demo_{tag}`) that PASSES on the unchanged tree and FAILS with your change applied. Verify both
    directions yourself. To switch between the clean and the changed tree do NOT use `git stash` (the stash stack is shared with other
    worktrees); use `git diff -- src > /tmp/{tag}.patch; git apply -R /tmp/{tag}.patch` and later `git apply /tmp/{tag}.patch`. The test must be deterministic (no flaky timing; if it
    needs an interleaving, force it with barriers / controlled mock peers / explicit ordering) and finish within about a minute.
{('Ideas already used by earlier changes — do something DIFFERENT from these: ' + ' | '.join(avoid)) if avoid else ''}

Read the code first (start from the modules the property is about{(': ' + ', '.join(map(str, anchors))[:600]) if anchors else ''}) and pick a clause of the property that
is easy to overlook. Prefer a clause other than the most obvious one.

DELIVERABLES — put them in the directory {wt}/SEED_OUT/ (create it):
  * patch.diff  — `git diff -- src` of your change only (NOT including the demo test), applicable with `git apply` to a clean checkout;
  * seed_demo_{tag}.rs — a copy of the demonstration test;
  * notes.md — what the change is, which clause of the property it breaks, what exactly is needed for it to manifest, which commands
    you ran and their results (demo without / with the change; lib tests with the change).
Leave the worktree with your change applied. Your final answer should be a short summary (what you changed, what it needs to manifest,
test results). Do not commit anything.""")
