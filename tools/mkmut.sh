#!/bin/sh
# tools/mkmut.sh <mutants|benign> <PROP> <name> "<what>" [expected-key-substring ...]
# saves the current diff of the scratch worktree /tmp/mw as a selftest case and resets the worktree
set -e
kind=$1; prop=$2; name=$3; what=$4; shift 4
d=/verif/selftest/$kind/$prop
mkdir -p $d
git -C /tmp/mw diff > $d/$name.patch
test -s $d/$name.patch || { echo "empty diff"; exit 1; }
keys=$(python3 -c 'import json,sys; print(json.dumps(sys.argv[1:]))' "$@")
python3 - "$d/$name.json" "$prop" "$what" "$keys" <<'PY'
import json,sys
json.dump({"property":sys.argv[2],"what":sys.argv[3],"keys":json.loads(sys.argv[4])},open(sys.argv[1],'w'),indent=1)
PY
git -C /tmp/mw checkout -- .
echo saved $d/$name.patch
