#!/bin/sh
# benign_sweep.sh [pattern] — run each independent benign case's properties on its pre-extracted facts (/tmp/bfacts)
pat=${1:-}
for j in /verif/selftest/benign/independent/*$pat*.json; do
  n=$(basename $j .json)
  [ -f /tmp/bfacts/$n.jsonl ] || { echo "$n: no facts"; continue; }
  for p in $(python3 -c "import json;print(' '.join(json.load(open('$j'))['properties']))"); do
    python3 /verif/tools/run_on_facts.py $p /tmp/bfacts/$n.jsonl 2>&1 | awk -v n=$n 'NR==1{ if ($0 !~ / 0 new violations/) print n": "$0 } NR>1 && NR<6 {print "      "substr($0,1,220)}'
  done
done
echo sweep-done
