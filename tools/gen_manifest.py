#!/usr/bin/env python3
"""Regenerate /verif/MANIFEST.json from the property modules present in engine/rules/props."""
import importlib, json, os, sys
V = os.path.dirname(os.path.dirname(os.path.abspath(__file__)))
sys.path.insert(0, os.path.join(V, 'engine', 'rules'))
props = [json.loads(l) for l in open(os.path.join(V, 'properties.jsonl'))]
NA_REASONS = json.load(open(os.path.join(V, 'tools', 'not_applicable.json')))
checks = []
na = []
for p in props:
    pid = p['id']
    path = os.path.join(V, 'engine', 'rules', 'props', pid.lower() + '.py')
    if os.path.exists(path) and pid not in NA_REASONS.get('_force', []):
        m = importlib.import_module('props.' + pid.lower())
        checks.append({
            'property_id': pid,
            'quick_cmd': './check %s --tier quick' % pid,
            'thorough_cmd': './check %s --tier thorough' % pid,
            'evidence_file': 'evidence/%s.json' % pid,
            'replay_cmd_template': './check %s --replay {path}' % pid,
            'engine': 'mir-rules',
            'level_claimed': {
                'category': 'other',
                'text': getattr(m, 'LEVEL_TEXT', 'Partial, structural: ' + m.EXPLANATION),
                'design_ref': 'DESIGN.md section 5, ' + pid,
            },
            'level_note': getattr(m, 'LEVEL_NOTE', 'Trusted: rustc MIR construction and trait resolution, the fact driver, the semantics table for std/tokio calls; flows are under-approximated (an unfollowed flow ends silently), so the check decides the named structural clauses only, not the run-time behaviour. Not decided: ' + getattr(m, 'NOT_DECIDED', '')),
            'technique': getattr(m, 'TECHNIQUE', 'static analysis: custom MIR rules (dominators, must-pass, who-writes, guard live ranges) over a rustc_private fact dump'),
        })
    else:
        na.append({'property_id': pid, 'reason': NA_REASONS.get(pid, 'no static rule built for this property yet (static-analysis family only); not claimed')})
man = {
    'version': 1,
    'setup_cmd': './setup.sh',
    'hooks': {
        'guard': 'none (the analysis needs no source hooks; /repo is analysed as it is)',
        'enable': 'n/a - checks run `cargo +nightly check --lib` on /repo through engine/driver (RUSTC_WORKSPACE_WRAPPER); nothing is compiled into the crate',
        'baseline_off_cmd': 'cd /repo && cargo nextest run --workspace --no-fail-fast --test-threads 8 --offline || cargo test --workspace --no-fail-fast --offline',
        'source_commits': [],
        'add_only': True,
    },
    'engines': [
        {'name': 'mir-rules', 'path': 'engine', 'serves_properties': [c['property_id'] for c in checks],
         'kind_free_text': 'rustc_private driver dumping un-elaborated MIR + type tables of /repo as JSON facts; Python rule engine (dominators on an edge-split CFG, expression reconstruction, guard live ranges, who-writes, must-pass, call graph) with per-property rules, floors, known-findings file and a mutant/benign self-test corpus'}
    ],
    'checks': checks,
    'not_applicable': na,
    'notes': 'Technique family: static analysis only. Every claimed property is claimed partially (level "other"): the evidence names the structural clauses decided and what is not decided. See DESIGN.md.',
}
json.dump(man, open(os.path.join(V, 'MANIFEST.json'), 'w'), indent=1)
print('checks:', [c['property_id'] for c in checks]); print('not_applicable:', [n['property_id'] for n in na])
