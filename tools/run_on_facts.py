#!/usr/bin/env python3
"""run_on_facts.py <PROP> <facts.jsonl> [-l] — run one property's rules on an already extracted fact file and print what is
violated beyond the known findings (rule development aid; never used by a registered check)."""
import sys
sys.path.insert(0, '/verif/engine/rules')
import selftest, runner
prop, fp = sys.argv[1].upper(), sys.argv[2]
import os
relp = fp[:-6] + '.rel.jsonl'
over = {'dbg': fp, 'rel': relp if os.path.exists(relp) else fp}
rc, ctx = selftest.run_rules_only(prop, over)
nv = selftest.new_violations(ctx, prop)
print('%s on %s: %d obligations, %d new violations' % (prop, fp.rsplit('/', 1)[-1], len(ctx.obls), len(nv)))
for o in nv:
    print('  %-16s %s @%s\n      %s' % (o.rule, o.key, o.where, o.detail[:400]))
if '-l' in sys.argv:
    for o in ctx.obls:
        print('%-10s %-9s %s  @%s\n             %s' % (o.rule, 'ok' if o.ok else 'VIOLATED', o.key, o.where, o.detail[:300]))
