"""A small abstract interpreter for loop-free numeric MIR bodies (used for the numeric clauses of C10).

Nothing is executed: every path of the body is unfolded into a symbolic term over the body's *inputs* (fields read through a
reference parameter, scalar parameters), with the path condition that selects it.  Three analyses run on the terms:

  interval(term, ranges)     sound enclosure of the value (outward reasoning on +,-,*,/,ln,min,max,casts; inf-aware)
  dsign(term, var, ranges)   sign of the partial derivative w.r.t. one input: '+', '-', '0' or '?' (unknown).  Quotients of
                             linear forms n(x)/d(x) are handled exactly: d/dx = (n' d - n d') / d^2, the numerator being again a
                             linear form whose sign is read off its coefficients when all inputs are >= 0.
  jump(...)                  for a piecewise definition split on a linear guard `L > 0` over non-negative integers: the sign of the
                             step made when one input of L goes 0 -> 1 (the other inputs of L being 0)

Terms: ('in', name) ('const', v) ('bin', op, a, b) ('cast', a) ('call', fname, [args]) ('unk', why)
"""
import math
import re

import facts as F

INF = float('inf')


class Unsupported(Exception):
    pass


# ------------------------------------------------------------------------------------------------
# path unfolding
# ------------------------------------------------------------------------------------------------

def _place_name(body, pl):
    """name of an input place: (*_2).field -> 'field' when _2 is a parameter; scalar parameter -> its name"""
    base = pl[0]
    if not (1 <= base <= body.argc):
        return None
    fs = [p.rsplit('::', 1)[-1] for p in pl[1:] if isinstance(p, str) and p.startswith('.')]
    if any(isinstance(p, str) and p.startswith('[') for p in pl[1:]):
        return None
    if fs:
        return '.'.join(fs)
    if len(pl) == 1:
        return body.local_name(base) or 'arg%d' % base
    return None


def unfold(body, max_paths=64):
    """[(conds, term, line_of_return)] for every path entry -> return. conds = [(op, lhs_term, rhs_term)]"""
    out = []

    def operand(env, op):
        if 'p' in op:
            pl = op['p']
            # a local that merely aliases a parameter (copy / reborrow of `stats`, or the parameter of a spliced helper)
            hops = 0
            while pl[0] in env and env[pl[0]][0] == 'alias' and hops < 8:
                pl = list(env[pl[0]][1]) + list(pl[1:])
                hops += 1
            if len(pl) == 1 and pl[0] in env:
                return env[pl[0]]
            if len(pl) == 2 and pl[0] in env and isinstance(pl[1], str) and pl[1] in ('.::0', '.::1'):
                t = env[pl[0]]
                if t[0] == 'ovf':
                    return t[1] if pl[1] == '.::0' else ('const', 0)
            nm = _place_name(body, pl)
            if nm is not None:
                return ('in', nm)
            return ('unk', 'place %s' % pl)
        if 'v' in op:
            return ('const', F.scalar(op['v'], op['ty']))
        return ('unk', 'operand')

    def alias_target(env, pl):
        # place made only of derefs over a parameter (or over another alias): denotes the same input object
        if all(p == '*' for p in pl[1:]):
            base = pl[0]
            if 1 <= base <= body.argc:
                return [base]
            if base in env and env[base][0] == 'alias':
                return list(env[base][1])
        return None

    def rvalue(env, r):
        k = r['k']
        if k == 'use' and 'p' in r['o']:
            at = alias_target(env, r['o']['p'])
            if at is not None and not re.match(r'^(u|i)(8|16|32|64|128|size)$|^f(32|64)$|^bool$', body.local_ty(at[0]).lstrip('&').strip()):
                return ('alias', at)
        if k == 'ref':
            at = alias_target(env, r['p'])
            if at is not None:
                return ('alias', at)
        if k == 'use':
            return operand(env, r['o'])
        if k == 'bin':
            a, b = operand(env, r['a']), operand(env, r['b'])
            op = r['op']
            if op.endswith('WithOverflow'):
                return ('ovf', ('bin', op[:-len('WithOverflow')], a, b))
            return ('bin', op, a, b)
        if k == 'cast':
            return ('cast', operand(env, r['o']), r.get('ty'))
        if k == 'un':
            return ('un', r['op'], operand(env, r['a']))
        if k == 'ref':
            nm = _place_name(body, r['p'])
            if nm is not None:
                return ('in', nm)
            if len(r['p']) == 1 and r['p'][0] in env:
                return env[r['p'][0]]
        return ('unk', 'rvalue %s' % k)

    def walk(bb, env, conds, depth):
        if len(out) >= max_paths:
            raise Unsupported('more than %d paths' % max_paths)
        if depth > 400:
            raise Unsupported('path too long (loop?)')
        blk = body.blocks[bb]
        env = dict(env)
        for s in blk['s']:
            d = s['d']
            if len(d) == 1:
                env[d[0]] = rvalue(env, s['r'])
        t = blk['t']
        k = t['k']
        if k == 'ret':
            out.append((conds, env.get(0, ('unk', 'no return value')), t.get('ln')))
        elif k in ('goto', 'drop', 'assert'):
            walk(t['t'], env, conds, depth + 1)
        elif k == 'call':
            f = t['f']
            name = f.get('r', f.get('fn', '?'))
            args = [operand(env, a) for a in t.get('args', [])]
            d = t.get('d')
            if d and len(d) == 1:
                env[d[0]] = ('call', name, args)
            if t.get('t') is None:
                return
            walk(t['t'], env, conds, depth + 1)
        elif k == 'switch':
            dv = operand(env, t['d'])
            vals = [v for v, _ in t['v']]
            for v, tgt in t['v']:
                walk(tgt, env, conds + [_cond(dv, v, vals, False)], depth + 1)
            walk(t['o'], env, conds + [_cond(dv, None, vals, True)], depth + 1)
        else:
            raise Unsupported('terminator %s' % k)

    visiting = set()
    walk(0, {}, [], 0)
    return out


def _cond(dv, v, vals, otherwise):
    """condition for taking a switch edge on a bool / integer discriminant term"""
    neg = False
    while dv[0] == 'un' and dv[1] == 'Not':
        dv = dv[2]
        neg = not neg
    if dv[0] == 'bin' and dv[1] in F.CMP_NEG and vals in (['0'], ['1']):
        truth = otherwise if vals == ['0'] else (not otherwise)
        if neg:
            truth = not truth
        op = dv[1] if truth else F.CMP_NEG[dv[1]]
        return (op, dv[2], dv[3])
    return ('switch', dv, ('not', tuple(vals)) if otherwise else v)


# ------------------------------------------------------------------------------------------------
# linear forms over inputs
# ------------------------------------------------------------------------------------------------

def linform(t):
    """term -> ({input: coef}, const) if it is an affine form of inputs (through int->float casts), else None"""
    k = t[0]
    if k == 'in':
        return ({t[1]: 1.0}, 0.0)
    if k == 'const':
        if isinstance(t[1], bool) or not isinstance(t[1], (int, float)):
            return None
        return ({}, float(t[1]))
    if k == 'cast':
        return linform(t[1])
    if k == 'bin' and t[1] in ('Add', 'Sub'):
        a, b = linform(t[2]), linform(t[3])
        if a is None or b is None:
            return None
        sg = 1.0 if t[1] == 'Add' else -1.0
        co = dict(a[0])
        for x, c in b[0].items():
            co[x] = co.get(x, 0.0) + sg * c
        return (co, a[1] + sg * b[1])
    if k == 'bin' and t[1] == 'Mul':
        a, b = linform(t[2]), linform(t[3])
        if a is None or b is None:
            return None
        if not a[0]:
            return ({x: c * a[1] for x, c in b[0].items()}, a[1] * b[1])
        if not b[0]:
            return ({x: c * b[1] for x, c in a[0].items()}, a[1] * b[1])
    return None


def _norm_lf(lf):
    return (tuple(sorted((x, c) for x, c in lf[0].items() if c)), lf[1])


def known_lower(lf, ranges):
    """a lower bound for the affine form from path facts (`form >= k` recorded by refine), else None"""
    n = _norm_lf(lf)
    for f, k in ranges.get('__pos__', []):
        if f[0] == n[0]:
            return k + (n[1] - f[1])
    return None


def _lin_sign(lf, ranges):
    """sign of an affine form given input ranges: '+', '-', '0', '?'  ('+' means >= 0)"""
    kl = known_lower(lf, ranges)
    if kl is not None and kl >= 0:
        return '+'
    co, c0 = lf
    lo = hi = c0
    for x, c in co.items():
        rl, rh = ranges.get(x, (-INF, INF))
        if c >= 0:
            lo += c * rl if c else 0.0
            hi += c * rh if c else 0.0
        else:
            lo += c * rh
            hi += c * rl
    if lo == 0 and hi == 0:
        return '0'
    if lo >= 0:
        return '+'
    if hi <= 0:
        return '-'
    return '?'


# ------------------------------------------------------------------------------------------------
# intervals
# ------------------------------------------------------------------------------------------------

def _mul(a, b):
    def m(x, y):
        if (x == 0 and abs(y) == INF) or (y == 0 and abs(x) == INF):
            return 0.0
        return x * y
    ps = [m(a[0], b[0]), m(a[0], b[1]), m(a[1], b[0]), m(a[1], b[1])]
    return (min(ps), max(ps))


def interval(t, ranges):
    """(lo, hi, may_be_nan)"""
    k = t[0]
    if k == 'in':
        lo, hi = ranges.get(t[1], (-INF, INF))
        return (lo, hi, False)
    if k == 'const':
        v = t[1]
        if isinstance(v, bool):
            v = int(v)
        if not isinstance(v, (int, float)):
            return (-INF, INF, True)
        if isinstance(v, float) and math.isnan(v):
            return (-INF, INF, True)
        return (float(v), float(v), False)
    if k == 'cast':
        return interval(t[1], ranges)
    if k == 'ovf':
        return interval(t[1], ranges)
    if k == 'un' and t[1] == 'Neg':
        lo, hi, n = interval(t[2], ranges)
        return (-hi, -lo, n)
    if k == 'bin':
        op = t[1]
        a = interval(t[2], ranges)
        b = interval(t[3], ranges)
        nan = a[2] or b[2]
        if op == 'Add':
            lo = a[0] + b[0]
            lf = linform(t)
            kl = known_lower(lf, ranges) if lf is not None else None
            if kl is not None:
                lo = max(lo, kl)
            return (lo, a[1] + b[1], nan or (a[1] == INF and b[0] == -INF) or (a[0] == -INF and b[1] == INF))
        if op == 'Sub':
            return (a[0] - b[1], a[1] - b[0], nan or (a[1] == INF and b[1] == INF) or (a[0] == -INF and b[0] == -INF))
        if op == 'Mul':
            lo, hi = _mul(a, b)
            zero_inf = (a[0] <= 0 <= a[1] and (abs(b[0]) == INF or abs(b[1]) == INF)) or (b[0] <= 0 <= b[1] and (abs(a[0]) == INF or abs(a[1]) == INF))
            return (lo, hi, nan or zero_inf)
        if op == 'Div':
            # quotient of affine forms n/d with d > 0: evaluate by monotonicity at the corners when possible
            if b[0] <= 0 <= b[1]:
                return (-INF, INF, True)       # divisor may be zero: 0/0 or x/0
            q = _ratio_interval(t[2], t[3], ranges)
            if q is not None:
                return (q[0], q[1], nan)
            inv = (1.0 / b[1] if abs(b[1]) != INF else 0.0, 1.0 / b[0] if abs(b[0]) != INF else 0.0)
            lo, hi = _mul(a, (min(inv), max(inv)))
            return (lo, hi, nan or ((abs(a[0]) == INF or abs(a[1]) == INF) and (abs(b[0]) == INF or abs(b[1]) == INF)))
        return (-INF, INF, True)
    if k == 'call':
        name = t[1]
        args = [interval(a, ranges) for a in t[2]]
        nan = any(a[2] for a in args)
        if re.search(r'f(64|32)>::ln$', name) and len(args) == 1:
            lo, hi, _ = args[0]
            if lo < 0:
                return (-INF, INF, True)
            return (math.log(lo) if lo > 0 else -INF, math.log(hi) if hi < INF else INF, nan)
        if re.search(r'f(64|32)>::(ln_1p)$', name) and len(args) == 1:
            lo, hi, _ = args[0]
            if lo <= -1:
                return (-INF, INF, True)
            return (math.log1p(lo), math.log1p(hi) if hi < INF else INF, nan)
        if re.search(r'f(64|32)>::sqrt$', name) and len(args) == 1:
            lo, hi, _ = args[0]
            if lo < 0:
                return (-INF, INF, True)
            return (math.sqrt(lo), math.sqrt(hi) if hi < INF else INF, nan)
        if re.search(r'f(64|32)>::min$|cmp::Ord>::min$|cmp::min$', name) and len(args) == 2:
            return (min(args[0][0], args[1][0]), min(args[0][1], args[1][1]), nan)
        if re.search(r'f(64|32)>::max$|cmp::Ord>::max$|cmp::max$', name) and len(args) == 2:
            return (max(args[0][0], args[1][0]), max(args[0][1], args[1][1]), nan)
        if re.search(r'f(64|32)>::clamp$', name) and len(args) == 3:
            return (max(args[0][0], args[1][0]), min(args[0][1], args[2][1]), nan)
        if re.search(r'f(64|32)>::abs$', name) and len(args) == 1:
            lo, hi, _ = args[0]
            return (0.0 if lo <= 0 <= hi else min(abs(lo), abs(hi)), max(abs(lo), abs(hi)), nan)
        if re.search(r'f(64|32)>::exp$', name) and len(args) == 1:
            lo, hi, _ = args[0]
            return (math.exp(lo) if lo > -700 else 0.0, math.exp(hi) if hi < 700 else INF, nan)
        if re.search(r'::saturating_sub$', name) and len(args) == 2:
            return (max(0.0, args[0][0] - args[1][1]), max(0.0, args[0][1] - args[1][0]), nan)
        if re.search(r'::saturating_add$', name) and len(args) == 2:
            return (args[0][0] + args[1][0], args[0][1] + args[1][1], nan)
        return (-INF, INF, True)
    return (-INF, INF, True)


def _ratio_interval(n, d, ranges):
    ln, ld = linform(n), linform(d)
    if ln is None or ld is None:
        return None
    if _lin_sign(ld, ranges) != '+':
        return None
    vars_ = sorted(set(ln[0]) | set(ld[0]))
    # monotone in each variable (sign of n' d - n d' does not depend on that variable): evaluate at corners
    lo_pt, hi_pt = {}, {}
    for x in vars_:
        s = _ratio_dsign(ln, ld, x, ranges)
        rl, rh = ranges.get(x, (-INF, INF))
        if s in ('+', '0'):
            lo_pt[x], hi_pt[x] = rl, rh
        elif s == '-':
            lo_pt[x], hi_pt[x] = rh, rl
        else:
            return None

    def ev(pt):
        BIG = 2.0 ** 80
        pt = {x: (BIG if v == INF else (-BIG if v == -INF else v)) for x, v in pt.items()}
        nn = ln[1] + sum(c * pt[x] for x, c in ln[0].items())
        dd = ld[1] + sum(c * pt[x] for x, c in ld[0].items())
        if dd == 0:
            return None
        return nn / dd
    a, b = ev(lo_pt), ev(hi_pt)
    if a is None or b is None:
        return None
    # limits at BIG are approached, never exceeded, by monotonicity; widen slightly for rounding
    lo, hi = min(a, b) - 1e-12, max(a, b) + 1e-12
    if _lin_sign(ln, ranges) in ('+', '0'):
        lo = max(lo, 0.0)           # non-negative numerator over a positive denominator
    return (lo, hi)


def _ratio_dsign(ln, ld, x, ranges):
    nx, dx = ln[0].get(x, 0.0), ld[0].get(x, 0.0)
    # numerator of the derivative: nx * d - n * dx  (affine; the x terms cancel)
    co = {}
    for y, c in ld[0].items():
        co[y] = co.get(y, 0.0) + nx * c
    for y, c in ln[0].items():
        co[y] = co.get(y, 0.0) - dx * c
    c0 = nx * ld[1] - dx * ln[1]
    co = {y: c for y, c in co.items() if abs(c) > 0 and y != x}
    return _lin_sign((co, c0), ranges)


# ------------------------------------------------------------------------------------------------
# derivative signs
# ------------------------------------------------------------------------------------------------

def _comb(a, b):
    if a == '0':
        return b
    if b == '0':
        return a
    if a == b:
        return a
    return '?'


def _neg(s):
    return {'+': '-', '-': '+', '0': '0', '?': '?'}[s]


def _vsign(iv):
    if iv[2]:
        return '?'
    if iv[0] >= 0:
        return '+'
    if iv[1] <= 0:
        return '-'
    return '?'


def _smul(vs, ds):
    """sign of (value with sign vs) * (derivative with sign ds)"""
    if ds == '0':
        return '0'
    if vs == '?' or ds == '?':
        return '?'
    return '+' if vs == ds else '-'


def depends(t, var):
    k = t[0]
    if k == 'in':
        return t[1] == var
    if k in ('cast', 'ovf'):
        return depends(t[1], var)
    if k == 'un':
        return depends(t[2], var)
    if k == 'bin':
        return depends(t[2], var) or depends(t[3], var)
    if k == 'call':
        return any(depends(a, var) for a in t[2])
    return k == 'unk'


def dsign(t, var, ranges):
    """sign of d t / d var: '+' (non-decreasing), '-' (non-increasing), '0' (independent), '?'"""
    if not depends(t, var):
        return '0'
    k = t[0]
    if k == 'in':
        return '+'
    if k in ('cast', 'ovf'):
        return dsign(t[1], var, ranges)
    if k == 'un' and t[1] == 'Neg':
        return _neg(dsign(t[2], var, ranges))
    if k == 'bin':
        op = t[1]
        if op == 'Add':
            return _comb(dsign(t[2], var, ranges), dsign(t[3], var, ranges))
        if op == 'Sub':
            return _comb(dsign(t[2], var, ranges), _neg(dsign(t[3], var, ranges)))
        if op == 'Mul':
            # (ab)' = a'b + ab'
            s1 = _smul(_vsign(interval(t[3], ranges)), dsign(t[2], var, ranges))
            s2 = _smul(_vsign(interval(t[2], ranges)), dsign(t[3], var, ranges))
            return _comb(s1, s2)
        if op == 'Div':
            ln, ld = linform(t[2]), linform(t[3])
            if ln is not None and ld is not None and _lin_sign(ld, ranges) == '+':
                div = interval(t[3], ranges)
                if div[0] > 0:
                    return _ratio_dsign(ln, ld, var, ranges)
            # (a/b)' = a'/b - a b'/b^2
            bi = interval(t[3], ranges)
            if bi[2] or bi[0] <= 0 <= bi[1]:
                return '?'
            bs = _vsign(bi)
            s1 = _smul(bs, dsign(t[2], var, ranges))
            s2 = _neg(_smul(_vsign(interval(t[2], ranges)), dsign(t[3], var, ranges)))
            return _comb(s1, s2)
        return '?'
    if k == 'call':
        name = t[1]
        if re.search(r'f(64|32)>::(ln|ln_1p|sqrt|exp|tanh|log2|log10)$', name) and len(t[2]) == 1:
            return dsign(t[2][0], var, ranges)
        if re.search(r'f(64|32)>::(min|max)$|cmp::Ord>::(min|max)$|cmp::(min|max)$', name) and len(t[2]) == 2:
            return _comb(dsign(t[2][0], var, ranges), dsign(t[2][1], var, ranges))
        if re.search(r'f(64|32)>::clamp$', name) and len(t[2]) == 3:
            s = dsign(t[2][0], var, ranges)
            return s if not depends(t[2][1], var) and not depends(t[2][2], var) else '?'
        if re.search(r'::saturating_sub$', name) and len(t[2]) == 2:
            return _comb(dsign(t[2][0], var, ranges), _neg(dsign(t[2][1], var, ranges)))
        if re.search(r'::saturating_add$', name) and len(t[2]) == 2:
            return _comb(dsign(t[2][0], var, ranges), dsign(t[2][1], var, ranges))
        return '?'
    return '?'


# ------------------------------------------------------------------------------------------------
# piecewise definitions
# ------------------------------------------------------------------------------------------------

def refine(ranges, conds):
    """narrow input ranges with path conditions of the shapes  L > c, L >= c, L <= c, L == c  over non-negative inputs"""
    r = dict(ranges)
    for c in conds:
        if c[0] == 'switch':
            continue
        op, a, b = c
        la, lb = linform(a), linform(b)
        if la is None or lb is None:
            continue
        co = dict(la[0])
        for x, k in lb[0].items():
            co[x] = co.get(x, 0.0) - k
        k0 = lb[1] - la[1]          # sum co[x] x  op  k0
        co = {x: k for x, k in co.items() if k}
        if not co or any(k < 0 for k in co.values()) or any(r.get(x, (-INF, INF))[0] < 0 for x in co):
            continue
        if op == 'Ne' and k0 == 0:
            op = 'Gt'           # a non-negative integer combination that is not 0 is at least 1
        if op in ('Gt', 'Ge') and (k0 + (1 if op == 'Gt' else 0)) > 0:
            # a positive combination of non-negative integers known to be >= 1: remembered as a fact about the form itself
            r.setdefault('__pos__', [])
            r['__pos__'] = r['__pos__'] + [(_norm_lf((co, 0.0)), float(k0 + (1 if op == 'Gt' else 0)))]
        if op in ('Le', 'Lt', 'Eq'):
            bound = k0 if op != 'Lt' else k0 - 1      # integers
            for x, k in co.items():
                lo, hi = r.get(x, (0.0, INF))
                r[x] = (lo, min(hi, max(lo, bound / k)))
        if op in ('Gt', 'Ge') and len(co) == 1:
            (x, k), = co.items()
            lo, hi = r.get(x, (0.0, INF))
            r[x] = (max(lo, (k0 + (1 if op == 'Gt' else 0)) / k), hi)
    return r


def additive_terms(t, sign=1.0, out=None):
    out = out if out is not None else []
    if t[0] == 'bin' and t[1] == 'Add':
        additive_terms(t[2], sign, out)
        additive_terms(t[3], sign, out)
    elif t[0] == 'bin' and t[1] == 'Sub':
        additive_terms(t[2], sign, out)
        additive_terms(t[3], -sign, out)
    else:
        out.append((sign, t))
    return out


def difference_interval(ta, ra, tb, rb):
    """enclosure of ta - tb where additive terms present in both (structurally equal) cancel; ta evaluated under
    ranges ra, tb under rb (used for the step between two adjacent pieces of a piecewise definition)"""
    A = additive_terms(ta)
    B = additive_terms(tb)
    restA = list(A)
    restB = []
    for sb, xb in B:
        for i, (sa, xa) in enumerate(restA):
            if sa == sb and xa == xb:
                del restA[i]
                break
        else:
            restB.append((sb, xb))
    lo = hi = 0.0
    nan = False
    for s, x in restA:
        iv = interval(x, ra)
        nan = nan or iv[2]
        lo, hi = (lo + iv[0], hi + iv[1]) if s > 0 else (lo - iv[1], hi - iv[0])
    for s, x in restB:
        iv = interval(x, rb)
        nan = nan or iv[2]
        lo, hi = (lo - iv[1], hi - iv[0]) if s > 0 else (lo + iv[0], hi + iv[1])
    return (lo, hi, nan)


def inputs_of(t, out=None):
    out = out if out is not None else set()
    if t[0] == 'in':
        out.add(t[1])
    for x in t[1:]:
        if isinstance(x, tuple):
            inputs_of(x, out)
        elif isinstance(x, list):
            for y in x:
                if isinstance(y, tuple):
                    inputs_of(y, out)
    return out


def piece_steps(pieces, var, base):
    """for a piecewise definition [(conds, term)] over non-negative integer inputs: enclosures of f(p + e_var) - f(p) for every
    ordered pair of distinct pieces (B holds p, A holds p + e_var) whose boxes are adjacent in `var`.
    returns [(index_B, index_A, (lo, hi, nan))]"""
    out = []
    boxes = [refine(base, c) for c, _t in pieces]
    for ib, (cb, tb) in enumerate(pieces):
        for ia, (ca, ta) in enumerate(pieces):
            if ia == ib:
                continue
            rb, ra = dict(boxes[ib]), dict(boxes[ia])
            ok = True
            for x in base:
                bl, bh = rb.get(x, base[x])
                al, ah = ra.get(x, base[x])
                if x == var:
                    lo, hi = max(bl + 1, al), min(bh + 1, ah)
                    if lo > hi:
                        ok = False
                        break
                    ra[x] = (lo, hi)
                    rb[x] = (lo - 1, hi - 1)
                else:
                    lo, hi = max(bl, al), min(bh, ah)
                    if lo > hi:
                        ok = False
                        break
                    ra[x] = (lo, hi)
                    rb[x] = (lo, hi)
            if not ok:
                continue
            out.append((ib, ia, difference_interval(ta, ra, tb, rb)))
    return out


def show(t, depth=0):
    k = t[0]
    if k == 'in':
        return t[1]
    if k == 'const':
        return repr(t[1]) if not isinstance(t[1], float) else ('%g' % t[1])
    if k in ('cast', 'ovf'):
        return show(t[1])
    if k == 'un':
        return '%s(%s)' % (t[1], show(t[2]))
    if k == 'bin':
        sym = {'Add': '+', 'Sub': '-', 'Mul': '*', 'Div': '/', 'Gt': '>', 'Lt': '<', 'Ge': '>=', 'Le': '<=', 'Eq': '==', 'Ne': '!='}.get(t[1], t[1])
        return '(%s %s %s)' % (show(t[2]), sym, show(t[3]))
    if k == 'call':
        return '%s(%s)' % (t[1].rsplit('::', 1)[-1], ', '.join(show(a) for a in t[2]))
    return '?%s' % (t[1],)
