"""Checker self-test: apply stored patches to a scratch copy of /repo (outside /repo and /verif),
re-extract facts, run the rules and compare the violated obligation keys with what each patch is
expected to break (mutants) or not to break (benign edits).

usage: selftest.py [--only C12] [--kind mutants|benign|seeded] [--keep]
"""
import glob
import json
import os
import shutil
import subprocess
import sys
import tempfile
import time

sys.path.insert(0, os.path.dirname(os.path.abspath(__file__)))
import runner  # noqa: E402
import facts as F  # noqa: E402

VERIF = runner.VERIF


def scratch_copy():
    d = tempfile.mkdtemp(prefix='verif-scratch-', dir=os.environ.get('VERIF_SCRATCH', '/tmp'))
    subprocess.check_call(['rsync', '-a', '--exclude', 'target', '--exclude', '.git', runner.REPO + '/', d + '/'])
    return d


def apply_patch(d, patch):
    r = subprocess.run(['patch', '-p1', '--no-backup-if-mismatch', '-s', '-i', patch], cwd=d,
                       stdout=subprocess.PIPE, stderr=subprocess.STDOUT, text=True)
    return r.returncode == 0, r.stdout


TARGET = [None]   # cargo target directory of this worker (parallel runs: one per worker)


def worker_target(i):
    """target directory for worker i: worker 0 shares the primed one, the others get a copy (made once)"""
    base = os.path.join(runner.CACHE, 'target')
    i += int(os.environ.get('VERIF_WORKER_OFFSET', '0'))     # a second concurrent self-test run uses its own target directories
    if i == 0:
        return base
    d = os.path.join(runner.CACHE, 'target-w%d' % i)
    if not os.path.isdir(d):
        tmp = d + '.tmp%d' % os.getpid()
        subprocess.check_call(['cp', '-a', base, tmp])
        os.rename(tmp, d)
    return d


def analyse(d, props, cfgs=('dbg',)):
    """facts for scratch dir d, then the violated keys per property"""
    out = {}
    fpaths = {}
    tdir = TARGET[0] or os.path.join(runner.CACHE, 'target')
    for cfg in cfgs:
        fp = os.path.join(d, 'facts-%s.jsonl' % cfg)
        runner.extract_facts(cfg, repo=d, out=fp, target_dir=tdir)
        fpaths[cfg] = fp
    for p in props:
        mod_cfgs = None
        import importlib
        mod = importlib.import_module('props.' + p.lower())
        need = getattr(mod, 'CONFIGS', ['dbg'])
        over = {}
        for c in need:
            if c not in fpaths:
                fp = os.path.join(d, 'facts-%s.jsonl' % c)
                runner.extract_facts(c, repo=d, out=fp, target_dir=tdir)
                fpaths[c] = fp
            over[c] = fpaths[c]
        rc, ctx = run_rules_only(p, over)
        out[p] = ctx
    return out


def run_rules_only(prop, facts_override):
    import importlib
    mod = importlib.import_module('props.' + prop.lower())
    cfgs = getattr(mod, 'CONFIGS', ['dbg'])
    progs = {c: F.Program(facts_override[c]) for c in cfgs}
    primary = getattr(mod, 'PRIMARY', 'dbg' if 'dbg' in cfgs else cfgs[0])
    ctx = runner.Ctx(prop, progs[primary], 'quick', progs)
    try:
        mod.run(ctx)
    except F.AnchorMissing as e:
        ctx.ob('ANCHOR', 'anchor:' + str(e), False, '-', 'anchor missing: %s' % e)
    except Exception as e:
        import traceback
        traceback.print_exc(file=sys.stderr)
        ctx.ob('CRASH', 'rule-crash', False, '-', 'the rule engine raised %s: %s' % (type(e).__name__, e))
    for rule, n in ctx.floors.items():
        got = ctx.rule_counts.get(rule, 0)
        if got < n:
            ctx.ob('FLOOR', 'floor:%s' % rule, False, '-', 'rule %s matched %d < %d' % (rule, got, n))
    bad = [o for o in ctx.obls if not o.ok]
    return (1 if bad else 0), ctx


def new_violations(ctx, prop):
    known = runner.load_known()
    kk = {(k['property'], k['key']) for k in known.get('findings', [])}
    return [o for o in ctx.obls if not o.ok and (prop, o.key) not in kk]


def run_case(patch, meta, keep=False, verbose=True):
    """returns (status, detail). status: pass | fail | skipped"""
    d = scratch_copy()
    try:
        ok, msg = apply_patch(d, patch)
        if not ok:
            return 'skipped', 'patch no longer applies to this tree: ' + msg.strip()[:200]
        props = meta.get('properties') or [meta['property']]
        try:
            res = analyse(d, props)
        except RuntimeError as e:
            return 'fail', 'scratch tree did not analyse: %s' % str(e)[:2000]
        expect = meta.get('expect', 'fire')
        details = []
        status = 'pass'
        for p in props:
            nv = new_violations(res[p], p)
            keys = sorted(set(o.key for o in nv))
            if expect == 'fire':
                want = meta.get('keys', [])
                if not nv:
                    status = 'fail'
                    details.append('%s: no new violation reported (missed)' % p)
                elif want and not any(any(w in k for k in keys) for w in want):
                    status = 'fail'
                    details.append('%s: fired, but not on the expected obligation %s; got %s' % (p, want, keys[:5]))
                else:
                    details.append('%s: fired on %s' % (p, keys[:4]))
            else:
                if nv:
                    status = 'fail'
                    details.append('%s: FALSE ALARM on a behaviour-preserving edit: %s' % (p, [(o.key, o.detail[:200]) for o in nv[:3]]))
                else:
                    details.append('%s: silent' % p)
        return status, '; '.join(details)
    finally:
        if not keep:
            shutil.rmtree(d, ignore_errors=True)


def cases(kind, only=None):
    base = os.path.join(VERIF, 'selftest' if kind != 'seeded' else 'seeded')
    out = []
    if kind == 'seeded':
        for mp in sorted(glob.glob(os.path.join(base, '*', 'meta.json'))):
            meta = json.load(open(mp))
            patch = os.path.join(os.path.dirname(mp), 'patch.diff')
            meta.setdefault('expect', 'fire')
            if 'checker' in meta:
                meta.update(meta['checker'])
            if only and only not in (meta.get('properties') or [meta.get('property')]):
                continue
            if meta.get('detected') is False or meta.get('skip_reason'):
                continue
            out.append((patch, meta))
        return out
    for mp in sorted(glob.glob(os.path.join(base, kind, '**', '*.json'), recursive=True)):
        meta = json.load(open(mp))
        patch = mp[:-5] + '.patch'
        if not os.path.exists(patch):
            continue
        meta.setdefault('expect', 'fire' if kind == 'mutants' else 'silent')
        if only and only not in (meta.get('properties') or [meta.get('property')]):
            continue
        out.append((patch, meta))
    return out


def summary_for_property(prop, jobs=None):
    t0 = time.time()
    jobs = jobs or int(os.environ.get('VERIF_JOBS', '4') or 1)
    out = {'mutants': 0, 'mutants_detected': 0, 'benign': 0, 'benign_silent': 0, 'seeded': 0, 'seeded_detected': 0, 'problems': [], 'cases': []}
    todo = []
    for kind in ('mutants', 'benign', 'seeded'):
        for patch, meta in cases(kind, prop):
            todo.append((kind, patch, meta, False))
    done = []
    if jobs > 1 and len(todo) > 1:
        import multiprocessing as mp
        q = mp.Queue()
        for i in range(jobs):
            worker_target(i)
        with mp.Pool(jobs, initializer=_init_worker, initargs=(q,)) as pool:
            for i in range(jobs):
                q.put(i)
            done = list(pool.imap_unordered(_run_one, todo))
    else:
        done = [_run_one(t) for t in todo]
    for kind, patch, st, detail, dt in sorted(done, key=lambda r: r[1]):
        out['cases'].append({'patch': os.path.relpath(patch, VERIF), 'kind': kind, 'status': st})
        if st == 'skipped':
            continue
        out[kind] += 1
        if st == 'pass':
            out[{'mutants': 'mutants_detected', 'benign': 'benign_silent', 'seeded': 'seeded_detected'}[kind]] += 1
        else:
            out['problems'].append('%s: %s' % (os.path.basename(patch), detail[:160]))
    out['wall_s'] = round(time.time() - t0, 1)
    return out


def _init_worker(q):
    TARGET[0] = worker_target(q.get())


def _run_one(args):
    kind, patch, meta, keep = args
    t0 = time.time()
    st, detail = run_case(patch, meta, keep=keep)
    return kind, patch, st, detail, time.time() - t0


def main(argv):
    import argparse
    ap = argparse.ArgumentParser()
    ap.add_argument('--only', default=None)
    ap.add_argument('--kind', default='all')
    ap.add_argument('--keep', action='store_true')
    ap.add_argument('--match', default=None)
    ap.add_argument('--jobs', type=int, default=1, help='parallel scratch analyses (one cargo target directory each)')
    a = ap.parse_args(argv)
    kinds = ['mutants', 'benign', 'seeded'] if a.kind == 'all' else [a.kind]
    failed = 0
    total = 0
    results = []
    todo = []
    for kind in kinds:
        for patch, meta in cases(kind, a.only):
            if a.match and a.match not in patch:
                continue
            todo.append((kind, patch, meta))
    total = len(todo)
    if a.jobs > 1 and total > 1:
        import multiprocessing as mp
        q = mp.Queue()
        for i in range(a.jobs):
            worker_target(i)    # copies are made up front, sequentially
        with mp.Pool(a.jobs, initializer=_init_worker, initargs=(q,)) as pool:
            for i in range(a.jobs):
                q.put(i)
            for kind, patch, st, detail, dt in pool.imap_unordered(_run_one, [(k, p, m, a.keep) for k, p, m in todo]):
                print('[%s] %-7s %s  (%.0fs)\n      %s' % (kind, st.upper(), os.path.relpath(patch, VERIF), dt, detail))
                sys.stdout.flush()
                results.append({'patch': os.path.relpath(patch, VERIF), 'kind': kind, 'status': st, 'detail': detail})
                if st == 'fail':
                    failed += 1
        results.sort(key=lambda r: r['patch'])
    else:
        for kind, patch, meta in todo:
            t0 = time.time()
            st, detail = run_case(patch, meta, keep=a.keep)
            print('[%s] %-7s %s  (%.0fs)\n      %s' % (kind, st.upper(), os.path.relpath(patch, VERIF), time.time() - t0, detail))
            sys.stdout.flush()
            results.append({'patch': os.path.relpath(patch, VERIF), 'kind': kind, 'status': st, 'detail': detail})
            if st == 'fail':
                failed += 1
    print('selftest: %d cases, %d failed' % (total, failed))
    os.makedirs(os.path.join(VERIF, 'selftest'), exist_ok=True)
    with open(os.path.join(VERIF, 'selftest', 'last_run.json'), 'w') as fh:
        json.dump(results, fh, indent=1)
    return 1 if failed else 0


if __name__ == '__main__':
    sys.exit(main(sys.argv[1:]))
