"""debug aid: pretty-print a body from a facts file.  usage: show.py <facts> <body-id-regex> [-e]"""
import re
import sys
import facts as F


def place(p):
    s = '_%d' % p[0]
    for x in p[1:]:
        if x == '*':
            s = '(*%s)' % s
        elif x.startswith('.'):
            s += '.' + x.rsplit('::', 1)[-1]
        else:
            s += x
    return s


def op(o):
    if 'p' in o:
        return ('move ' if o.get('m') else '') + place(o['p'])
    if 'fn' in o:
        return 'fn:' + o.get('r', o['fn'])
    return 'const %s' % (o.get('named') or o.get('c'))


def rv(r):
    k = r['k']
    if k == 'use':
        return op(r['o'])
    if k == 'ref':
        return '&%s %s' % (r['m'], place(r['p']))
    if k == 'bin':
        return '%s(%s, %s)' % (r['op'], op(r['a']), op(r['b']))
    if k == 'un':
        return '%s(%s)' % (r['op'], op(r['a']))
    if k == 'cast':
        return '%s as %s [%s]' % (op(r['o']), r['ty'], r['ck'])
    if k == 'disc':
        return 'discriminant(%s)' % place(r['p'])
    if k == 'agg':
        d = r.get('adt') or r.get('def') or r['ak']
        if r.get('var'):
            d += '::' + r['var']
        fs = r.get('fields')
        if fs and len(fs) == len(r['ops']):
            return '%s{%s}' % (d, ', '.join('%s: %s' % (f, op(o)) for f, o in zip(fs, r['ops'])))
        return '%s(%s)' % (d, ', '.join(op(o) for o in r['ops']))
    return k


def show(b):
    print('fn %s  [%s:%d-%d] argc=%d%s%s' % (b.id, b.file, b.lo, b.hi, b.argc, ' async' if b.is_async else '', ' coroutine' if b.is_coroutine else ''))
    for i, l in enumerate(b.locals):
        if l.get('n') or i <= b.argc:
            print('   let _%d: %s  // %s' % (i, l['ty'], l.get('n')))
    for bi, blk in enumerate(b.blocks):
        print(' bb%d%s:' % (bi, ' (cleanup)' if blk.get('cl') else ''))
        for s in blk['s']:
            print('    %s = %s   // L%s%s' % (place(s['d']), rv(s['r']), s.get('ln'), ' x:' + str(s.get('mx') or s.get('dk')) if s.get('x') else ''))
        t = blk['t']
        k = t['k']
        ex = ' x:%s' % (t.get('mx') or t.get('dk')) if t.get('x') else ''
        if k == 'call':
            f = t['f']
            print('    %s = %s(%s) -> bb%s   // L%s%s' % (place(t['d']), f.get('r', f.get('fn', op(f) if 'p' in f else '?')), ', '.join(op(a) for a in t['args']), t.get('t'), t.get('ln'), ex))
        elif k == 'switch':
            print('    switch %s %s else bb%d   // L%s%s' % (op(t['d']), ' '.join('%s->bb%d' % (v, x) for v, x in t['v']), t['o'], t.get('ln'), ex))
        elif k == 'goto':
            print('    goto bb%d' % t['t'])
        elif k == 'drop':
            print('    drop(%s) -> bb%d   // L%s' % (place(t['p']), t['t'], t.get('ln')))
        elif k == 'assert':
            print('    assert(%s == %s, %s) -> bb%d' % (op(t['c']), t['e'], t['mm'], t['t']))
        elif k == 'yield':
            print('    yield -> bb%d (drop bb%s)   // L%s%s' % (t['t'], t.get('drop'), t.get('ln'), ex))
        else:
            print('    %s' % k)


if __name__ == '__main__':
    prog = F.Program(sys.argv[1])
    rx = re.compile(sys.argv[2])
    for bid, b in prog.bodies.items():
        if rx.search(bid):
            show(b)
            if '-e' in sys.argv:
                for bi, t in b.terms():
                    if t['k'] == 'switch':
                        print('  cond bb%d: %s' % (bi, b.cond_of_switch(bi).show()))
