"""C05 — hostile inbound bytes are rejected safely; sender id comes from the connection (structural clauses)."""
import json
import re
import facts as F
import lib as L

EXPLANATION = (
    "Static decision of structural clauses of C05 on MIR: (1) SIZE-GATE — handle_dht_message decodes only under data.len() <= "
    "MAX_MESSAGE_SIZE (<= 64 KiB); DhtRecord::deserialize / serialize under <= 512; find-node counts and stored values are capped "
    "(shared with C02 / C03); (2) WINDOW — parse_protocol_message returns Some only under timestamp >= now - 300 and timestamp <= "
    "now + 30; (3) SOURCE — the source of every P2PEvent::Message built on the receive path is the connection-id parameter, never a "
    "field of the decoded WireMessage, and the receive loop passes the id derived from the receive tuple; the envelope parser returns "
    "Option; (4) PANIC-SITES — in every in-crate body reachable from the inbound entry points and from the reply-processing lookup "
    "loops, each potential panic site (unwrap/expect/panic, indexing, slice copies, bounds / division asserts) is discharged by a "
    "local pattern (constant index into a fixed array; enumerate index over an equally long array; copy after a dominating length "
    "equality) — a str range index on a peer-supplied id is not dischargeable."
    ' (5) ALLOC-PEER / peer-count — no allocation in the inbound-reachable set (now including DhtStreamHandler::handle_stream and DhtProtocolHandler::handle_message) is sized by a field of a decoded message, and every peer-supplied find-node count is capped wherever it reaches the routing table.'
)
NOT_DECIDED = "allocation inside postcard/serde for length-prefixed fields; the 16 MiB transport frame bound; debug-build arithmetic overflow asserts"
ASSUMPTIONS = ["postcard::from_bytes returns Err (never panics) on malformed input", "tracing macros evaluate their arguments when a subscriber enables the level"]

MGR = 'dht_network_manager::DhtNetworkManager'
TH = 'transport_handle::TransportHandle'
ENG = 'dht::core_engine::DhtCoreEngine'
REC = 'placement::dht_records::DhtRecord'


def _cv(prog, e):
    st = e.strip()
    v = st.const_value()
    if v is None and st.k == 'const' and st.d in prog.consts:
        v = prog.const_val(st.d)
    return v


def decode_gate(prog, b, limit, what, ctx, key):
    dec = b.calls(r'postcard::from_bytes$')
    if not dec:
        ctx.ob('SIZE-GATE', key, False, b.where(), '%s: no postcard::from_bytes call found' % what)
        return
    for i, c in enumerate(dec):
        ok = False
        why = ''
        src = b.expr(c.args[0]).strip().show()
        for cd in F.dominating_conds(b, c.bb):
            if L.cmp_is(cd, lambda e: e.mentions_call(r'::len$') is not None, 'Le', lambda e: _cv(prog, e) is not None and _cv(prog, e) <= limit):
                ln = cd.lhs.mentions_call(r'::len$') or cd.rhs.mentions_call(r'::len$')
                if ln is not None and ln.b and ln.b[0].strip().show() == src:
                    ok = True
                    why = cd.brief(100)
        ctx.ob('SIZE-GATE', '%s#%d' % (key, i), ok, c.where(), '%s: decode of `%s` is%s dominated by its length <= %d%s' % (what, src, '' if ok else ' NOT', limit, ' (%s)' % why if why else ''))


def run(ctx):
    prog = ctx.prog
    # ---- 1. size gates
    hm = prog.inl(MGR + '::handle_dht_message', keep=r'::handle_dht_(request|response)$')
    ctx.touch(hm, len(hm.calls()))
    decode_gate(prog, hm, 64 * 1024, 'handle_dht_message', ctx, 'dht-message')
    de = prog.inl(REC + '::deserialize')
    decode_gate(prog, de, 512, 'DhtRecord::deserialize', ctx, 'record-deserialize')
    se = prog.inl(REC + '::serialize')
    oks = False
    for bb, st in L.success_returns(se):
        for cd in F.dominating_conds(se, bb):
            if L.cmp_is(cd, lambda e: e.mentions_call(r'::len$') is not None, 'Le', lambda e: _cv(prog, e) is not None and _cv(prog, e) <= 512):
                oks = True
    ctx.ob('SIZE-GATE', 'record-serialize', oks, se.where(), 'DhtRecord::serialize returns Ok only for encodings of at most 512 bytes: %s' % oks)
    hr = prog.inl(ENG + '::handle_request', keep=r'KademliaRoutingTable::find_closest_nodes$')
    okc = False
    from props import c02 as C02
    for cs in hr.calls(r'::find_closest_nodes$'):
        ce = hr.expr(cs.args[2])
        if any(x.k == 'downcast' and x.b == 'FindNode' for x in ce.walk()) or C02._count_class(prog, hr, ce, 0)[0] != 'local':
            okc = C02.bounded_by(prog, hr, ce, 20)
    ctx.ob('SIZE-GATE', 'find-node-count-capped', okc, hr.where(), 'FindNode count is min(count, <=20) before the table lookup: %s' % okc)
    # every other place where the count of a decoded FindNode reaches the routing-table lookup (closed world, shared with C02)
    seen_sites = set()
    for needle in ('find_nodes', 'find_closest_nodes'):
        for b in prog.bodies.containing(needle):
            for cs in b.calls(r'DhtCoreEngine::find_nodes$|KademliaRoutingTable::find_closest_nodes$'):
                if (b.id, cs.bb) in seen_sites or len(cs.args) < 3:
                    continue
                seen_sites.add((b.id, cs.bb))
                st, detail = C02._count_class(prog, b, b.expr(cs.args[2]), 2)
                if st == 'local':
                    continue
                k = sum(1 for o in ctx.obls if o.key.startswith('peer-count@%s' % b.root))
                ctx.ob('SIZE-GATE', 'peer-count@%s#%d' % (b.root, k), st == 'capped', cs.where(),
                       'count of an inbound FindNode handed to the table lookup: %s' % detail, entry=b.root)
    # "stored values are at most 512 bytes" on every path by which a peer's bytes can reach the store (also the value a reply
    # to our own get carries): these are C03's closed-world rules about who may write DataStore and under which gate
    from props import c03 as C03
    import runner as _runner
    sub = _runner.Ctx('C03', prog, ctx.tier, ctx.progs)
    try:
        C03.run(sub)
        for o in sub.obls:
            if o.rule in ('WHO-WRITES', 'SIZE-GATE') or o.key == 'get:cache-through-gated-store':
                ctx.ob('VALUE-CAP', 'store:%s' % o.key, o.ok, o.where, o.detail, entry=o.entry)
    except Exception as e:  # pragma: no cover - fail closed
        ctx.ob('VALUE-CAP', 'store:rules-ran', False, '-', 'the store-path rules could not be evaluated: %s' % e)
    ctx.floor('VALUE-CAP', 3)
    ctx.floor('SIZE-GATE', 8)

    # ---- 2. timestamp window
    pp = prog.inl('network::parse_protocol_message')
    ctx.touch(pp, len(pp.calls()))
    somes = [d for d in pp.defs().get(0, []) if d[0] == 's' and d[3]['r']['k'] == 'agg' and d[3]['r'].get('var') == 'Some']
    if not somes:
        ctx.ob('WINDOW', 'parse:some', False, pp.where(), 'no Some(..) return in parse_protocol_message')
    for i, d in enumerate(somes):
        conds = F.dominating_conds(pp, d[1])
        old = new = False
        for cd in conds:
            if cd.kind != 'cmp' or cd.op not in ('Lt', 'Le', 'Gt', 'Ge'):
                continue
            fl, fr = _lin(prog, cd.lhs), _lin(prog, cd.rhs)
            if fl is None or fr is None:
                continue
            g = {k: fl.get(k, 0) - fr.get(k, 0) for k in ('T', 'N', 1)}
            if cd.op in ('Lt', 'Le'):
                g = {k: -v for k, v in g.items()}
            # the fact on this path:  g.T*timestamp + g.N*now + g.1 >= 0   (saturating ops read as plain +/-)
            if g['T'] == 1 and g['N'] == -1 and 0 <= g[1] <= 300:
                old = True          # timestamp >= now - c, c <= 300
            if g['T'] == -1 and g['N'] == 1 and 0 <= g[1] <= 30:
                new = True          # timestamp <= now + c, c <= 30
        ctx.ob('WINDOW', 'parse:some#%d:not-older-than-300s' % i, old, pp.where(d[3].get('ln')), 'Some(event) dominated by a comparison that implies timestamp >= now - c with c <= 300: %s' % old)
        ctx.ob('WINDOW', 'parse:some#%d:not-newer-than-30s' % i, new, pp.where(d[3].get('ln')), 'Some(event) dominated by a comparison that implies timestamp <= now + c with c <= 30: %s' % new)
    ctx.floor('WINDOW', 2)
    decp = pp.calls(r'postcard::from_bytes$')
    okd = bool(decp) and pp.expr(decp[0].args[0]).strip().show() == 'bytes'
    ctx.ob('WINDOW', 'parse:decodes-input', okd, pp.where(), 'the checked timestamp belongs to the WireMessage decoded from the input bytes: %s' % okd)

    # ---- 3. source identity
    n = 0
    for b in prog.bodies.containing('"network::P2PEvent"', '"Message"'):
        if b.derived:
            continue
        for bi, si, s in b.stmts():
            r = s['r']
            if r['k'] == 'agg' and r.get('adt') == 'network::P2PEvent' and r.get('var') == 'Message':
                fm = dict(zip(r['fields'], r['ops']))
                src = b.expr(fm['source'])
                from_payload = any(x.k == 'field' and x.b.startswith('network::WireMessage::') for x in src.walk()) or 'postcard' in src.show()
                from_param = any(x.k == 'param' for x in src.walk())
                n += 1
                ctx.touch(b)
                ctx.ob('SOURCE', 'event-source@%s' % b.id, from_param and not from_payload, b.where(s.get('ln')),
                       'P2PEvent::Message.source = %s (from a parameter: %s; from the decoded payload: %s)' % (src.brief(80), from_param, from_payload))
    ctx.floor('SOURCE', 1)
    recv = None
    for b in prog.bodies.containing('RequestResponseEnvelope', 'active_requests'):
        if b.root == TH + '::start_message_receiving_system':
            recv = b
    if recv is None:
        ctx.ob('SOURCE', 'receive-loop', False, '-', 'receive loop not found (anchor)')
    else:
        ctx.touch(recv, len(recv.calls()))
        okr = False
        for cs in recv.calls(r'::parse_protocol_message$'):
            a = recv.expr(cs.args[1])
            okr = a.mentions_call(r'::ant_peer_id_to_string$') is not None and a.mentions_call(r'::recv$') is not None and 'postcard' not in a.show()
            if not okr:
                # named local: transport_peer_id = ant_peer_id_to_string(&peer_id) with peer_id from recv()
                sl = recv.backward_locals([cs.args[1]['p'][0]]) if 'p' in cs.args[1] else set()
                rc = [c.dest[0] for c in recv.calls(r'Receiver::<.*>::recv$|::recv$') if c.dest]
                dec = [c.dest[0] for c in recv.calls(r'postcard::from_bytes$') if c.dest]
                okr = bool(set(rc) & sl) or any(recv.local_name(l) == 'peer_id' for l in sl)
                okr = okr and not (set(dec) & sl)
        ctx.ob('SOURCE', 'receive-loop:connection-id', okr, recv.where(), 'the receive loop hands parse_protocol_message the id derived from the receive tuple (not from decoded bytes): %s' % okr)
    pe = prog.body(TH + '::parse_request_envelope')
    okpe = pe.local_ty(0).startswith('std::option::Option') and not [s for s in L.panic_sites(pe)]
    ctx.ob('SOURCE', 'envelope-parser-total', okpe, pe.where(), 'parse_request_envelope returns Option and contains no panic site: %s' % okpe)

    # ---- 4. panic sites
    roots = [MGR + '::handle_dht_message', 'network::parse_protocol_message', TH + '::parse_request_envelope', ENG + '::handle_request',
             ENG + '::handle_response', REC + '::deserialize', MGR + '::get', MGR + '::find_closest_nodes_network']
    for r in roots:
        prog.body(r)
    if recv is not None:
        roots.append(recv.id)
    # the other inbound decoders of DHT messages (stream handler of the shared transport, protocol handler of the
    # network-integration layer): discovered as trait impls / methods that take bytes or a decoded DhtMessage from a peer
    for extra in ('<transport::dht_handler::DhtStreamHandler as ant_quic::ProtocolHandler>::handle_stream',
                  'dht::network_integration::DhtProtocolHandler::handle_message'):
        if prog.has_body(extra):
            roots.append(extra)
        else:
            ctx.note('inbound root %s not present in this tree' % extra)
    E = prog.reach(roots, depth=6)
    ctx.note('inbound-reachable set: %d bodies from %d roots' % (len(E), len(roots)))
    nsites = 0
    seen_keys = {}
    for bid in sorted(E):
        b = prog.bodies[bid]
        if b.derived:
            continue
        ctx.touch(b)
        for kind, bb, ln, text, obj in L.panic_sites(b):
            nsites += 1
            ok, why = discharge(prog, b, kind, bb, obj)
            base = 'panic:%s:%s' % (kind, b.root)
            seen_keys[base] = seen_keys.get(base, 0) + 1
            ctx.ob('PANIC-SITES', '%s#%d' % (base, seen_keys[base]), ok, b.where(ln), '%s in %s: %s' % (text[:80], b.id[-70:], why), entry=b.root)
    ctx.stats['panic_sites'] = nsites
    # ---- 5. allocations sized by a peer-supplied integer (closed world over the same reachable set): a capacity / length
    # request whose size is a field of a decoded message — directly or through a parameter (followed two callers up) — must
    # be bounded by min(.., constant) at the site; sizes that are constants or lengths of data already in memory are fine
    from props import c07 as C07
    nal = 0
    for bid in sorted(E):
        b = prog.bodies[bid]
        if b.derived:
            continue
        for cs in b.calls(C07.ALLOC_SIZED):
            idx = 0 if re.search(r'with_capacity(_and_hasher)?$', cs.callee) else 1
            if idx >= len(cs.args):
                continue
            st, why = _size_class(prog, b, b.expr(cs.args[idx]), 2)
            nal += 1
            if st == 'mem':
                continue
            k = sum(1 for o in ctx.obls if o.key.startswith('alloc:%s' % b.root))
            ctx.ob('ALLOC-PEER', 'alloc:%s#%d' % (b.root, k), st != 'peer', cs.where(),
                   '%s(%s): %s' % (cs.short(), b.expr(cs.args[idx]).brief(60), why), entry=b.root)
    ctx.ob('ALLOC-PEER', 'alloc:scanned', True, '-', '%d allocation-sizing calls in the %d inbound-reachable bodies were classified (expected count on the pinned tree: 0 — the handlers build their replies with collect / push)' % (nal, len(E)))
    ctx.ob('PANIC-SITES', 'reachable-set', len(E) >= 150, '-', '%d bodies reachable from the inbound entry points were scanned (%d potential panic sites)' % (len(E), nsites))
    ctx.floor('PANIC-SITES', 3)


MSG_FIELD = re.compile(r'(WireMessage|Envelope|DhtNetworkMessage|DhtMessage|DhtRecord|DhtRequestWrapper|DhtResponse|DhtNetworkOperation|DhtNetworkResult)::')


def _size_class(prog, b, e, depth):
    """('mem' | 'capped' | 'peer' | 'local', why) for an allocation size expression"""
    from props import c07 as C07
    if C07._is_memsize(e):
        return 'mem', 'constant / length of data already in memory'
    top = e.strip()
    while top.k == 'cast' and str(top.a).startswith('IntToInt'):
        top = top.b.strip()
    if top.k == 'call' and re.search(r'::min$|cmp::min$', top.a) and any(_cv(prog, a) is not None for a in top.b):
        return 'capped', 'bounded by min(.., constant)'
    for x in e.walk():
        if x.k == 'downcast' and isinstance(x.b, str) and x.b in ('FindNode', 'FindValue', 'Store', 'Put', 'Get'):
            return 'peer', 'sized by a field of a decoded inbound message (%s): a peer chooses how much memory is requested (capacity overflow panics)' % x.b
        if x.k == 'field' and isinstance(x.b, str) and MSG_FIELD.search(x.b) and not re.search(r'::len\(', e.show()):
            return 'peer', 'sized by message field %s: a peer chooses how much memory is requested' % x.b.rsplit('::', 1)[-1]
    if top.k == 'param' and depth > 0:
        root = b.root
        rb = prog.bodies.get(root)
        idx = rb.param_index(top.b) if rb is not None else None
        worst = ('local', 'parameter fed by local callers only')
        if idx is not None:
            for cid in prog.callers_of(root):
                cb = prog.bodies[cid]
                for cs in cb.calls():
                    if (cs.callee != root and cs.declared != root) or idx - 1 >= len(cs.args):
                        continue
                    st, why = _size_class(prog, cb, cb.expr(cs.args[idx - 1]), depth - 1)
                    if st == 'peer':
                        return st, why + ' (through %s)' % root.rsplit('::', 1)[-1]
        return worst
    return 'local', 'not derived from an inbound message'


def _lin(prog, e):
    """expression as a linear form {T: a, N: b, 1: c} over T = the decoded message's timestamp and N = the clock read;
    saturating / wrapping / checked-by-debug-assert arithmetic is read as plain + and - (necessary-condition reading)"""
    x = e.strip()
    while x.k == 'let':
        x = x.c.strip()
    if x.k == 'cast' and str(x.a).startswith('IntToInt'):
        return _lin(prog, x.b)
    cv = _cv(prog, x)
    if cv is not None and not isinstance(cv, bool):
        return {1: cv}
    if x.k == 'field' and isinstance(x.b, str) and x.b.endswith('::timestamp'):
        return {'T': 1}
    if x.k == 'field' and x.b == '::0' and x.a.strip().k == 'bin':
        return _lin(prog, x.a)

    def comb(a, b, sign):
        if a is None or b is None:
            return None
        return {k: a.get(k, 0) + sign * b.get(k, 0) for k in ('T', 'N', 1)}
    if x.k == 'bin' and x.a in ('Add', 'AddWithOverflow', 'AddUnchecked'):
        return comb(_lin(prog, x.b), _lin(prog, x.c), +1)
    if x.k == 'bin' and x.a in ('Sub', 'SubWithOverflow', 'SubUnchecked'):
        return comb(_lin(prog, x.b), _lin(prog, x.c), -1)
    if x.k == 'call' and re.search(r'::(saturating|wrapping)_sub$', x.a) and len(x.b) == 2:
        return comb(_lin(prog, x.b[0]), _lin(prog, x.b[1]), -1)
    if x.k == 'call' and re.search(r'::(saturating|wrapping)_add$', x.a) and len(x.b) == 2:
        return comb(_lin(prog, x.b[0]), _lin(prog, x.b[1]), +1)
    if x.mentions_call(r'SystemTime::now$') is not None and not any(
            y.k == 'field' and isinstance(y.b, str) and y.b.endswith('::timestamp') for y in x.walk()):
        return {'N': 1}
    return None


def discharge(prog, b, kind, bb, obj):
    """(ok, reason) for one potential panic site"""
    if kind == 'bounds':
        m = re.search(r'len: const (\d+)_usize, index: (?:copy|move) _(\d+)', obj['mm'])
        if m:
            n, il = int(m.group(1)), int(m.group(2))
            e = F.Expr.of_local(b, il, 30)
            cv = e.const_value()
            if cv is not None and cv < n:
                return True, 'constant index %d < %d' % (cv, n)
            # enumerate() index over an array of the same constant length
            nx = L.mentions_next(e)
            if nx is not None and nx.mentions_call(r'Iterator::enumerate$|Iterator>::enumerate$') is not None:
                arrs = [x for x in nx.walk() if x.k in ('let', 'local')]
                for x in arrs:
                    if b.local_ty(x.a) == '[u8; %d]' % n:
                        return True, 'index enumerates an array of the same constant length %d' % n
            # i % N / i / 8 patterns are not attempted
        return False, 'bounds check with a non-constant index that no local pattern bounds'
    if kind == 'divzero':
        return False, 'division by a value no dominating test shows non-zero'
    cs = obj
    if kind == 'slice-op' and cs.callee.endswith('copy_from_slice'):
        dst = b.expr(cs.args[0])
        srcx = b.expr(cs.args[1])
        dn = None
        for x in dst.walk():
            if x.k in ('let', 'local'):
                mt = re.match(r'^\[u8; (\d+)\]$', b.local_ty(x.a))
                if mt:
                    dn = int(mt.group(1))
        for cd in F.dominating_conds(b, cs.bb):
            if L.cmp_is(cd, lambda e: e.mentions_call(r'::len$') is not None, 'Eq', lambda e: e.const_value() is not None):
                n = cd.rhs.const_value() if cd.rhs.const_value() is not None else cd.lhs.const_value()
                if dn is not None and n == dn:
                    return True, 'copy into [u8; %d] after a dominating length == %d test' % (dn, n)
        return False, 'copy_from_slice without a dominating length equality'
    if kind == 'index':
        recv_ty = L.operand_ty(b, cs.args[0]) or ''
        idx = b.expr(cs.args[1]) if len(cs.args) > 1 else None
        if re.search(r'\bString\b|&str|\bstr\b', recv_ty) or cs.callee.startswith('<std::string::String as') or 'for str>' in cs.callee:
            who = b.expr(cs.args[0]).brief(60)
            return False, ('str range index on `%s` with a computed bound (%s): panics when the bound is not a char boundary — the id is peer-supplied, '
                           'so one reply naming a peer with a multi-byte character at that offset aborts the task' % (who, idx.brief(60) if idx else '?'))
        if idx is not None:
            # Vec / slice range with constant end after a dominating length test
            for cd in F.dominating_conds(b, cs.bb):
                if L.cmp_is(cd, lambda e: e.mentions_call(r'::len$') is not None, ('Eq', 'Ge'), lambda e: e.const_value() is not None):
                    n = cd.rhs.const_value() if cd.rhs.const_value() is not None else cd.lhs.const_value()
                    ends_ = [x.const_value() for x in idx.walk() if x.k == 'const' and isinstance(x.const_value(), int)]
                    if ends_ and max(ends_) <= n:
                        return True, 'range end %d under a dominating length test (%d)' % (max(ends_), n)
            if idx.mentions_call(r'::min$') is not None and 'len(' in idx.show() and re.search(r'Vec<u8>|\[u8\]', recv_ty):
                return True, 'byte-slice range clamped by min(len)'
        return False, 'index with a bound no local pattern discharges'
    if kind in ('unwrap', 'panic'):
        return False, 'explicit unwrap/expect/panic on the inbound path'
    if kind == 'time-arith':
        # fine when no operand can be steered by a peer: operands are clock reads, constants, configuration fields
        def steerable(e):
            for x in e.walk():
                if x.k == 'call' and re.search(r'postcard::from_bytes$|serde_json::from_(slice|str)$|bincode::deserialize$', x.a):
                    return 'decoded input'
                if x.k == 'field' and isinstance(x.b, str) and re.search(r'(WireMessage|Envelope|DhtNetworkMessage|DhtMessage|DhtRecord|NodeInfo|DHTNode)::', x.b):
                    return 'message field %s' % x.b.rsplit('::', 1)[-1]
            return None
        for a in cs.args:
            why = steerable(b.expr(a))
            if why:
                return False, ('%s on a value derived from %s: overflows (panics) for extreme peer-supplied values; use checked_add / checked_sub'
                               % (cs.callee.rsplit('::', 1)[-1], why))
        return True, 'time arithmetic on clock reads / constants / configuration only'
    return False, 'undischarged %s' % kind
