"""C12 — each peer sequence number accepted at most once and only in order (structural clauses)."""
import json
import re
import facts as F
import lib as L

EXPLANATION = (
    "Static decision of the structural clauses of C12 on MIR of src/monotonic_counter.rs: (1) ATOMIC — in every "
    "body that applies a sequence update, classification and apply lie inside one live range of one write guard "
    "of the counters lock, no drop and no await between; (2) the classifier takes &PeerCounter of a Freeze type "
    "and reaches no writer of PeerCounter, and apply is control-dependent on the Valid verdict of that very "
    "classification; (3) the Valid return is dominated by guards that imply sequence == last_valid_sequence + 1 "
    "and by the replay test; (4) WHO-WRITES last_valid_sequence; (5) classifier and apply act on the map entry "
    "of the submitted peer with the submitted number; (6) reload feeds the same map that sync serialises."
)
NOT_DECIDED = "timing windows against the wall clock; behaviour under real schedules (only the locking shape is decided)"
ASSUMPTIONS = ["std::sync::RwLock gives mutual exclusion to write guards", "no unsafe code mutates PeerCounter"]

ADT = 'monotonic_counter::PeerCounter'
SYS = 'monotonic_counter::MonotonicCounterSystem'
RES = 'monotonic_counter::SequenceValidationResult'
HWM = 'last_valid_sequence'


def run(ctx):
    prog = ctx.prog
    prog.adt(ADT)
    prog.adt(RES)
    variants = [v['name'] for v in prog.adt(RES)['variants']]
    if 'Valid' not in variants:
        raise F.AnchorMissing(RES + '::Valid')
    valid_idx = variants.index('Valid')

    # ---- discover: the apply function(s) = bodies that assign PeerCounter.last_valid_sequence
    writes = L.field_writes(prog, ADT, HWM)
    writer_ids = set()
    for b, bi, kind, thing in writes:
        ctx.touch(b)
        if kind == 'aggregate':
            op = L.agg_field_operand(thing, HWM)
            okc = (b.derived or (op is not None and op.get('v') == '0'))
            ctx.ob('WHO-WRITES', 'construct:%s' % b.id, okc, b.where(thing.get('ln')),
                   'PeerCounter constructed in %s with %s = %s (allowed: derived impls, or the constant 0)' % (
                       b.id, HWM, 'derived' if b.derived else (op.get('c') if op and 'c' in op else 'non-constant')))
        elif b.derived:
            ctx.ob('WHO-WRITES', 'derived:%s' % b.id, True, b.where(), 'derive-generated writer')
        else:
            writer_ids.add(b.id)
    appliers = set()
    for wid in sorted(writer_ids):
        b = prog.body(wid)
        # the only hand-written writer must be a &mut self method of PeerCounter that stores its
        # `sequence` parameter; anything else is a new writer of the high-water mark
        ws = [(bi, kind, th) for (bb, bi, kind, th) in writes if bb.id == wid and kind != 'aggregate']
        good = b.impl_self == ADT
        detail = []
        for bi, kind, th in ws:
            if kind != 'assign':
                good = False
                detail.append('%s of the field' % kind)
                continue
            e = F.Expr.of_rvalue(b, th['r'], 8)
            if e.strip().k != 'param':
                good = False
                detail.append('assigned %s (not a parameter)' % e.show())
            else:
                detail.append('= parameter `%s`' % e.strip().show())
        ctx.ob('WHO-WRITES', 'writer:%s' % wid, good, b.where(),
               'hand-written writer of %s::%s: %s' % (ADT, HWM, '; '.join(detail)))
        if good:
            appliers.add(wid)
    ctx.floor('WHO-WRITES', 2)
    if not appliers:
        ctx.anchor_fail('ATOMIC', 'no apply function writing %s found' % HWM)
        return

    # ---- entry points = bodies calling an applier
    # (a private helper that classifies and applies on behalf of its callers is spliced into them: the lock the rules ask
    # about is taken by the entry point, not by the helper)
    entry_sites = []
    roots = set()
    for ap_id in appliers:
        for b in prog.bodies.containing(json.dumps(ap_id)):
            if any(cs.callee in appliers for cs in b.calls()):
                roots |= prog.owner_roots(b.root)
    keep_rx = '|'.join(re.escape(a) + '$' for a in sorted(appliers))
    cls_fns = sorted(b.id for b in prog.bodies.in_files(['src/monotonic_counter.rs']) if not b.parent and b.locals and b.local_ty(0) == RES
                     and not prog.reaches_call(b.id, lambda cs: cs.callee in appliers, depth=3))
    for r in sorted(roots):
        # classifiers are not known yet: keep every fn returning the verdict type as a call
        ib = prog.inl(r, keep=keep_rx + ''.join('|' + re.escape(c) + '$' for c in cls_fns))
        for cs in ib.calls():
            if cs.callee in appliers:
                entry_sites.append((ib, cs))
    # the classifier = in-crate fn returning SequenceValidationResult called in those bodies
    classifiers = set()
    for b, cs in entry_sites:
        for c2 in b.calls():
            if c2.local and c2.dest and b.local_ty(c2.dest[0]) == RES:
                classifiers.add(c2.callee)
    if not classifiers:
        ctx.anchor_fail('ATOMIC', 'no classifier (fn returning SequenceValidationResult) called next to apply')
        return

    for b, ap in entry_sites:
        ctx.touch(b, len(b.calls()))
        key = 'apply@%s' % b.id
        # receiver of apply
        recv = b.expr(ap.args[0])
        acq = recv.mentions_call(L.LOCK_ACQ)
        gs = [g for g in L.guards(b) if acq is not None and g.acq.bb == acq.c.bb]
        if not gs:
            ctx.ob('ATOMIC', key, False, ap.where(),
                   'cannot tie the counter updated by apply to a lock guard held in this body (receiver: %s)' % recv.brief())
            continue
        g = gs[0]
        okmode = (g.mode == 'write' and g.lock_field() == 'counters')
        # classification call feeding the decision
        cls = [c for c in b.calls() if c.callee in classifiers]
        dom_cls = [c for c in cls if b.dominates(c.bb, ap.bb)]
        if not dom_cls:
            ctx.ob('ATOMIC', key, False, ap.where(), 'no classification call dominates the apply call')
            continue
        c = dom_cls[-1]
        ok, why = L.atomic_section(b, g, c.bb, ap.bb)
        ctx.ob('ATOMIC', key, ok and okmode, ap.where(),
               '%s; guard mode=%s on %s' % (why, g.mode, g.lock_path()), entry=b.id)
        # same counter, same number
        carg = None
        for a in c.args:
            ea = b.expr(a)
            if 'PeerCounter' in _ty_of_operand(b, a):
                carg = ea
        same_counter = carg is not None and carg.strip().show() == recv.strip().show()
        seq_cls = [b.expr(a).strip().show() for a in c.args if _ty_of_operand(b, a) == 'u64']
        seq_ap = [b.expr(a).strip().show() for a in ap.args if _ty_of_operand(b, a) == 'u64']
        same_seq = bool(seq_cls) and bool(seq_ap) and seq_cls[0] == seq_ap[0]
        # the map entry is keyed by the submitted peer id
        ent = recv.mentions_call(r'HashMap::<.*>::entry$|HashMap::<.*>::get_mut$')
        keyed = False
        if ent is not None and len(ent.b) >= 2:
            kx = ent.b[1].strip()
            keyed = re.search(r'(^|[.\s(*&])user_id$', kx.show()) is not None
        ctx.ob('SAME-ENTRY', key, same_counter and same_seq and keyed, ap.where(),
               'classified counter %s / updated counter %s; classified number %s / applied number %s; entry key %s' % (
                   carg.strip().brief(160) if carg else '?', recv.strip().brief(160), seq_cls[:1], seq_ap[:1],
                   ent.b[1].strip().brief() if ent is not None and len(ent.b) >= 2 else '?'), entry=b.id)
        # apply is control dependent on Valid of *this* classification result
        conds = F.dominating_conds(b, ap.bb)
        dep = False
        for cd in conds:
            if cd.kind == 'disc' and cd.value == valid_idx:
                src = cd.expr.strip()
                if src.k == 'call' and src.c is not None and src.c.bb == c.bb:
                    dep = True
                if src.k == 'local' and c.dest and src.a == c.dest[0]:
                    dep = True
        ctx.ob('VALID-GATE', key, dep, ap.where(),
               'apply is%s control-dependent on the Valid verdict of the dominating classification (conditions: %s)' % (
                   '' if dep else ' NOT', '; '.join(x.brief() for x in conds)), entry=b.id)
    ctx.floor('ATOMIC', 2)
    ctx.floor('VALID-GATE', 2)
    ctx.floor('SAME-ENTRY', 2)

    # ---- classifier: read-only view, Valid implies seq == last + 1
    for cid in sorted(classifiers):
        cb = prog.body(cid)
        ctx.touch(cb, len(cb.calls()))
        ptypes = [cb.local_ty(i) for i in range(1, cb.argc + 1)]
        pc = [t for t in ptypes if 'PeerCounter' in t]
        ro = bool(pc) and all(t == '&' + ADT for t in pc) and prog.adt(ADT).get('freeze') == 1
        # and it reaches no writer of PeerCounter at all
        reach = prog.reach([cid], depth=6)
        allw = set()
        for fld in prog.adt_fields(ADT):
            for wb, _, kind, _ in L.field_writes(prog, ADT, fld):
                if kind != 'aggregate' and not wb.derived:
                    allw.add(wb.id)
        bad = sorted(set(reach) & allw)
        ctx.ob('READ-ONLY', 'classifier:%s' % cid, ro and not bad, cb.where(),
               'classifier parameters %s; PeerCounter Freeze=%s; writers of PeerCounter reachable from it: %s' % (
                   pc, prog.adt(ADT).get('freeze'), bad or 'none'))
        # Valid return sites
        vblocks = L.ret_agg_blocks(cb, re.escape(RES) + '::Valid$')
        if not vblocks:
            ctx.ob('VALID-IMPLIES', 'valid:%s' % cid, False, cb.where(), 'no `Valid` return found in the classifier')
        for n, (bb, st) in enumerate(vblocks):
            conds = F.dominating_conds(cb, bb)
            seqp = lambda t: t in ('sequence', 'seq')
            lastp = lambda t: t.endswith('.' + HWM)
            lo, hi, used = L.bounds_from_conds(conds, seqp, lastp)
            okb = (lo == 1 and hi == 1)
            seen = [cd for cd in conds if cd.kind == 'bool' and cd.expr.k == 'call' and not cd.truth
                    and cd.expr.a.endswith('has_seen_sequence')]
            ctx.ob('VALID-IMPLIES', 'valid#%d:%s' % (n, cid), okb, cb.where(st.get('ln')),
                   'guards dominating the Valid return give last%+d <= sequence <= last%+d (needed: +1, +1) from: %s' % (
                       lo if lo is not None else -10**9, hi if hi is not None else 10**9,
                       '; '.join(x.show() for x in used)) if (lo is not None and hi is not None) else
                   'guards dominating the Valid return do not bound sequence on both sides (lo=%s hi=%s): %s' % (
                       lo, hi, '; '.join(x.show() for x in conds)))
            ctx.ob('REPLAY-TEST', 'seen#%d:%s' % (n, cid), bool(seen), cb.where(st.get('ln')),
                   'Valid return is%s dominated by the false edge of has_seen_sequence' % ('' if seen else ' NOT'))
            # time window guards present (future / too old): comparisons of `timestamp` with the clock
            tconds = [cd for cd in conds if cd.kind == 'cmp' and ('timestamp' in cd.lhs.show() or 'timestamp' in cd.rhs.show())]
            ctx.ob('WINDOW', 'window#%d:%s' % (n, cid), len(tconds) >= 2, cb.where(st.get('ln')),
                   'Valid return dominated by %d timestamp-window guards: %s' % (len(tconds), '; '.join(x.show() for x in tconds)))
    ctx.floor('VALID-IMPLIES', 1)
    ctx.floor('READ-ONLY', 1)

    # ---- reload: the map loaded from disk is the map validated against, and the one synced
    ctor = [b for b in prog.bodies.containing(json.dumps(SYS)) if any(r.get('adt') == SYS for r in b.aggregates())]
    for b in ctor:
        ctx.touch(b)
        for bi, si, s in b.stmts():
            r = s['r']
            if r['k'] == 'agg' and r.get('adt') == SYS:
                op = L.agg_field_operand(s, 'counters')
                e = b.expr(op) if op else None
                ld = None
                if e is not None:
                    ld = e.mentions_call(r'::load_counters$')
                okl = ld is not None and (ld.k == 'call' and ld.a.endswith('load_counters'))
                ctx.ob('RELOAD', 'ctor:%s' % b.id, okl, b.where(s.get('ln')),
                       'the counters map of a new system is %s' % ('the result of load_counters' if okl else 'NOT taken from load_counters: ' + (e.show() if e else '?')))
    ctx.floor('RELOAD', 1)
    # sync writes a serialisation of the counters map
    # name-free: wherever the module serialises a map of PeerCounters (what ends up in the counters file), the value
    # serialised is the live map read under the `counters` lock in that same body — not a copy kept from an earlier tick
    # (a cached copy can miss an accepted number, which a reloaded store then accepts again)
    mbodies = list(prog.bodies.in_files(['src/monotonic_counter.rs']))
    ser = []
    de = []
    for b in mbodies:
        if b.derived:
            continue
        for cs in b.calls(r'postcard::(to_stdvec|to_allocvec|to_vec)$|serde_json::to_(vec|string|writer)$|bincode::serialize$'):
            aty = L.operand_ty(b, cs.args[0]) or ''
            e = b.expr(cs.args[0])
            if 'PeerCounter' in aty or 'PeerCounter' in (cs.fa or '') or 'counters' in e.show():
                ser.append((b, cs, e))
        for cs in b.calls(r'postcard::from_bytes$|serde_json::from_(slice|str|reader)$|bincode::deserialize$'):
            if cs.dest and 'PeerCounter' in b.local_ty(cs.dest[0]):
                de.append((b, cs))
    if not ser:
        ctx.ob('RELOAD', 'sync-serialises-map', False, 'src/monotonic_counter.rs', 'no serialisation of the counters map found in the module (anchor)')
    for i, (b, cs, e) in enumerate(ser):
        rw = e.mentions_call(L.LOCK_ACQ)
        live = False
        if rw is not None and rw.b:
            lo = rw.b[0].strip()
            live = lo.show().endswith('.counters') or (lo.k == 'param' and isinstance(lo.a, int) and lo.a < len(b.locals) and 'PeerCounter' in b.local_ty(lo.a))
        if not live:
            # the lock may be taken in a named guard local of the same body
            for g in L.guards(b):
                if g.lock_field() == 'counters' and L.touches(b, e, L.alias_of(b, [g.local])):
                    live = True
        ctx.ob('RELOAD', 'sync-serialises-map' if i == 0 else 'sync-serialises-map#%d' % i, live, cs.where(),
               ('what is written to the counters file is the live map read under the counters lock: %s' % e.brief(100)) if live else
               ('the counters file is written from %s, not from the live map under the counters lock: a copy kept from an earlier sync can miss an accepted '
                'number, and a store reloaded from the file accepts it again' % e.brief(100)), entry=b.root)
    ctx.ob('RELOAD', 'load-deserialises-map', bool(de), (de[0][1].where() if de else 'src/monotonic_counter.rs'),
           'the counters file is decoded into a map of PeerCounters (%d site)' % len(de))

    # ---- the store never forgets a peer: no entry of the counters map is removed (its high-water mark would be
    #      lost and 1,2,3,... accepted again), except by the explicit reset operation
    nforget = 0
    for b in prog.bodies.in_files(['src/monotonic_counter.rs']):
        for cs in b.calls(r'HashMap::<.*>::(remove|remove_entry|retain|clear|drain|extract_if)$'):
            if 'PeerCounter' not in (cs.fa or '') and 'PeerCounter' not in (L.operand_ty(b, cs.args[0]) or ''):
                continue
            nforget += 1
            explicit = b.root == SYS + '::reset_peer_counter' and cs.callee.endswith('::remove')
            n = sum(1 for o in ctx.obls if o.key.startswith('forget@%s' % b.id))
            ctx.ob('NO-FORGET', 'forget@%s#%d' % (b.id, n), explicit, cs.where(),
                   ('reset_peer_counter removes the peer on explicit request (outside the quantified submissions)' if explicit else
                    '%s removes entries of the counters map: the removed peer\'s last_valid_sequence is lost and its numbers are accepted a second time'
                    % cs.short()), entry=b.root)
        for bi, si, st in b.stmts():
            d = st['d']
            if len(d) == 2 and d[1] == '*' and 'HashMap<' in b.local_ty(d[0]) and 'PeerCounter' in b.local_ty(d[0]) and st['r']['k'] != 'ref':
                nforget += 1
                n = sum(1 for o in ctx.obls if o.key.startswith('forget@%s' % b.id))
                ctx.ob('NO-FORGET', 'forget@%s#%d' % (b.id, n), False, b.where(st.get('ln')),
                       'the whole counters map is overwritten in place', entry=b.root)
    ctx.floor('NO-FORGET', 1)


def _ty_of_operand(b, a):
    if 'p' in a:
        pl = a['p']
        if len(pl) == 1:
            return b.local_ty(pl[0])
        return '?'
    return a.get('ty', '?')
