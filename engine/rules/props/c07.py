"""C07 — damaged log or snapshot data is detected and never replayed as state (structural clauses)."""
import json
import re
import facts as F
import lib as L

EXPLANATION = (
    "Static decision of structural clauses of C07 on MIR of src/persistent_state.rs: (1) VERIFY-GATE — every write to the "
    "state map during log replay is dominated by the true edge of the MAC check on the same record, and a snapshot is "
    "installed only on the equal edge of the checksum comparison; (2) COVER — the MAC routine reads every WalEntry field "
    "except the tag; (3) FRAMING — the MAC input is injective: no two variable-length operands adjacent without a length, "
    "Option presence encoded; (4) ALLOC-BOUND — buffer sizes taken from file bytes are bounded before allocating; (5) "
    "REPORTED — every skip of a bad record passes through the failure counter."
    ' ALLOC-BOUND is closed-world: every allocation-sizing call of the module (with_capacity, reserve, resize, vec![..; n]) whose size is not a constant / an in-memory length / the file size must be bounded, the sizing value being the size expression itself.'
)
NOT_DECIDED = "arbitrary corruption patterns and their interaction with postcard framing; the MAC and hash primitives themselves"
ASSUMPTIONS = ["HMAC-SHA256 / SHA-256 from the hmac/sha2 crates are correct", "postcard::from_bytes rejects malformed encodings"]

MGRT = 'persistent_state::PersistentStateManager::<T>'
ALLOC_SIZED = (r'(Vec|String|VecDeque|HashMap|HashSet|BTreeMap|BytesMut)::<.*>::(resize|with_capacity|reserve|reserve_exact|try_reserve|try_reserve_exact|'
               r'set_len|resize_with|with_capacity_and_hasher)$|String::(with_capacity|reserve|reserve_exact)$|vec::from_elem$')
ENTRY = 'persistent_state::WalEntry'
FILE = 'src/persistent_state.rs'


def _is_memsize(e):
    """is the size expression a constant, the length of something already in memory, the file's own size, or arithmetic /
    a minimum over such values?  (those need no bound; a value decoded from file *contents* does)"""
    while True:
        e = e.strip()
        if e.k == 'cast' and str(e.a).startswith('IntToInt'):
            e = e.b
        elif e.k == 'try':
            e = e.a
        else:
            break
    if e.k == 'const':
        return True
    if e.k == 'call':
        if re.search(r'::len$|Metadata::len$|::capacity$|::count$', e.a):
            return True
        if re.search(r'::min$|cmp::min$', e.a):
            return any(_is_memsize(a) for a in e.b)
        if re.search(r'::(saturating_sub|saturating_add|checked_add|wrapping_add|max)$', e.a):
            return all(_is_memsize(a) for a in e.b)
        return False
    if e.k == 'bin' and e.a in ('Add', 'Sub', 'Mul', 'Div', 'AddWithOverflow', 'SubWithOverflow', 'MulWithOverflow'):
        return _is_memsize(e.b) and _is_memsize(e.c)
    return False


def run(ctx):
    prog = ctx.prog
    prog.adt(ENTRY)
    MACFN, VERFN = L.wal_roles(prog)        # found by role, so renaming / un-methoding the two private routines changes nothing
    VSHORT = VERFN.rsplit('::', 1)[-1]
    bodies = list(prog.bodies.in_files([FILE]))
    for b in bodies:
        ctx.touch(b, len(b.calls()))

    # ------------------------------------------------------------------ 1. verify gate in replay
    replay0 = [b for b in bodies if b.root == MGRT + '::replay_wal_file']
    if not replay0:
        raise F.AnchorMissing(MGRT + '::replay_wal_file')
    # the replay routine with its private helpers spliced in (a step / decode helper changes nothing)
    replay = [prog.inl(b.id, keep=re.escape(VERFN) + '$') for b in replay0 if b.is_coroutine] or [prog.inl(replay0[0].id, keep=re.escape(VERFN) + '$')]
    n = 0
    for b in replay:
        for g in L.guards(b):
            if g.mode != 'write' or g.lock_field() != 'state':
                continue
            conds = F.dominating_conds(b, g.acq.bb)
            ver = [c for c in conds if c.kind == 'bool' and c.truth and c.expr.k == 'call' and c.expr.a == VERFN]
            n += 1
            ok = bool(ver)
            # the record checked is the record applied: state mutation args mention the same entry local
            same = False
            if ver:
                checked = set(x.a for x in ver[0].expr.b[1].walk() if x.k in ('let', 'local'))
                for cs in b.calls(r'HashMap::<.*>::(insert|remove)$'):
                    if b.dominates(g.acq.bb, cs.bb):
                        used = set()
                        for a in cs.args[1:]:
                            used |= b.backward_locals([a['p'][0]]) if 'p' in a else set()
                        if used & checked:
                            same = True
            ctx.ob('VERIFY-GATE', 'replay-write#%d@%s' % (n, b.id), ok and same, g.acq.where(),
                   'state write during replay is%s dominated by the true edge of verify_wal_entry%s' % (
                       '' if ok else ' NOT', ' on the record it applies' if same else (' (but applies a different record)' if ok else '')), entry=b.root)
    ctx.floor('VERIFY-GATE', 3)
    # nothing read from a decoded record steers recovery before that record's tag was checked: every branch whose
    # condition reads a WalEntry field lies on the true edge of verify_wal_entry (a field of an unverified record is
    # attacker-/damage-controlled, so skipping or routing on it drops or misplaces intact records silently)
    nvf = 0
    for b in replay:
        seen_sw = set()
        for nnode, e in sorted(b.edge_nodes().items()):
            sw = e[0]
            if sw in seen_sw:
                continue
            c = F.edge_cond(b, e)
            exprs = [x for x in (getattr(c, 'expr', None), getattr(c, 'lhs', None), getattr(c, 'rhs', None)) if x is not None]
            flds = sorted(set(x.b.rsplit('::', 1)[-1] for ex in exprs for x in ex.walk()
                              if x.k == 'field' and isinstance(x.b, str) and x.b.startswith(ENTRY + '::')))
            if not flds:
                continue
            seen_sw.add(sw)
            nvf += 1
            ver = [cd for cd in F.dominating_conds(b, sw) if cd.kind == 'bool' and cd.truth and cd.expr.k == 'call' and cd.expr.a == VERFN]
            ctx.ob('VERIFY-FIRST', 'branch-on:%s#%d@%s' % ('+'.join(flds), sum(1 for o in ctx.obls if o.rule == 'VERIFY-FIRST'), b.id), bool(ver),
                   b.where(b.line_of_block(sw)),
                   'branch on record field(s) %s %s' % (', '.join(flds), 'after the record was verified' if ver else
                                                         'BEFORE verify_wal_entry: an unverified field decides what recovery does with the record'), entry=b.root)
    ctx.floor('VERIFY-FIRST', 3)
    # verify_wal_entry accepts only on equality with a recomputed tag
    vb = prog.body(VERFN)
    eq = vb.calls(r'PartialEq.*>::eq$')
    calc = [c for c in vb.calls() if c.callee == MACFN]
    okv = False
    for cs in eq:
        a = vb.expr(cs.args[0]).show() + ' ' + vb.expr(cs.args[1]).show()
        if MACFN in a and '.hmac' in a:
            okv = True
    # the comparison may sit in a closure applied to the MAC routine's result (`mac(..).is_ok_and(|m| m == entry.hmac)`)
    if not okv and calc:
        for cid in prog.family(vb.id):
            cb_ = prog.bodies[cid]
            if cb_.id == vb.id:
                continue
            for cs in cb_.calls(r'PartialEq.*>::eq$|ConstantTimeEq>::ct_eq$'):
                a = cb_.expr(cs.args[0]).show() + ' ' + cb_.expr(cs.args[1]).show()
                if '.hmac' in a or 'hmac' in a:
                    # the closure must be applied to the MAC routine's output
                    for c2 in vb.calls(r'Result::<.*>::(is_ok_and|map|map_or|and_then)$|Option::<.*>::(is_some_and|map)$'):
                        if vb.expr(c2.args[0]).mentions_call(re.escape(MACFN) + '$') is not None:
                            okv = True
    # every `true`-capable return flows from that comparison
    rets = [F.Expr.of_rvalue(vb, d[3]['r'], 20) if d[0] == 's' else None for d in vb.defs().get(0, [])]
    const_true = any(r is not None and r.k == 'const' and r.b is True for r in rets)
    for d in vb.defs().get(0, []):
        if d[0] == 'c':
            pass
    ctx.ob('VERIFY-GATE', 'verify_wal_entry:compares', okv and bool(calc) and not const_true, vb.where(),
           'verify_wal_entry returns the comparison of the stored tag with calculate_entry_hmac (no constant-true return: %s)' % (not const_true))
    # snapshot install gated by checksum equality
    for b in bodies:
        if b.root != MGRT + '::recover_from_snapshot':
            continue
        for g in L.guards(b):
            if g.mode == 'write' and g.lock_field() == 'state':
                conds = F.dominating_conds(b, g.acq.bb)
                okc = False
                for c in conds:
                    if c.kind == 'bool' and c.expr.k == 'call' and re.search(r'PartialEq.*>::(ne|eq)$', c.expr.a):
                        txt = c.expr.show()
                        want_true = c.expr.a.endswith('::eq')
                        if '.checksum' in txt and c.truth == want_true:
                            okc = True
                ctx.ob('VERIFY-GATE', 'snapshot-install@%s' % b.id, okc, g.acq.where(),
                       'the snapshot is installed %s the equal edge of the checksum comparison' % ('only on' if okc else 'WITHOUT'), entry=b.root)

    # ------------------------------------------------------------------ 2. cover + 3. framing
    hb = prog.body(MACFN)
    fields = prog.adt_fields(ENTRY)
    ups = hb.calls(r'Mac>::update$|Mac::update$|Update>::update$|::update$')
    order = L.rpo(hb)
    ups.sort(key=lambda c: order.get(c.bb, 10**6))
    read = {}
    for u in ups:
        e = hb.expr(u.args[1])
        for x in e.walk():
            if x.k == 'field' and x.b.startswith(ENTRY + '::'):
                read.setdefault(x.b.rsplit('::', 1)[-1], []).append(u)
        # discriminant reads: `entry.transaction_type as u8`
    for f in fields:
        if f == 'hmac':
            continue
        ctx.ob('COVER', 'mac-covers:%s' % f, f in read, hb.where(),
               'WalEntry.%s is%s fed to the MAC' % (f, '' if f in read else ' NOT'))
    ctx.floor('COVER', 6)
    # the key comes from the manager's key field
    ks = hb.calls(r'Mac>::new_from_slice$|Mac::new_from_slice$|KeyInit')
    okk = any('hmac_key' in hb.expr(c.args[0]).show() for c in ks)
    if not okk:
        # keyed through a parameter: every caller hands it the manager's key field
        for c in ks:
            st_ = hb.expr(c.args[0]).strip()
            if st_.k == 'param' and isinstance(st_.a, int):
                idx_ = st_.a - 1
                callers = [(prog.bodies[cid], cc) for cid in prog.callers_of(MACFN) for cc in prog.bodies[cid].calls() if cc.callee == MACFN]
                okk = bool(callers) and all(idx_ < len(cc.args) and 'hmac_key' in cb_.expr(cc.args[idx_]).show() for cb_, cc in callers)
    ctx.ob('COVER', 'mac-keyed', okk, hb.where(), 'the MAC is keyed with self.hmac_key' if okk else 'MAC key does not come from self.hmac_key')

    def classify(u):
        e = hb.expr(u.args[1])
        s = e.show()
        if re.search(r'::len\(', s) or re.search(r'\.len\b', s):
            return 'len'
        if re.search(r'to_(le|be|ne)_bytes', s):
            return 'fixed'
        st = e.strip()
        if e.k == 'cast' or any(x.k == 'cast' and str(x.a).startswith('PointerCoercion(Unsize') for x in e.walk()):
            # &[u8; N] -> &[u8]: fixed width
            return 'fixed'
        if re.search(r'String::as_bytes|str>::as_bytes|Vec<.*>::deref|as_slice|as_ref|Deref>::deref', s):
            return 'var'
        return 'var'

    seq = []
    for u in ups:
        kind = classify(u)
        conds = [c for c in F.dominating_conds(hb, u.bb) if c.kind == 'disc' and 'branch' not in c.expr.show()]
        optional = bool(conds)
        seq.append((u, kind, optional))
    def entry_fields(u):
        return set(x.b.rsplit('::', 1)[-1] for x in hb.expr(u.args[1]).walk() if x.k == 'field' and x.b.startswith(ENTRY + '::'))
    # unique decodability: every variable-length operand that is followed by any other operand must have its
    # own length fed to the MAC before it (a fixed-width operand in between, e.g. a presence byte, does not help:
    # the variable bytes can still absorb it)
    bad = []
    for i in range(len(seq) - 1):
        u, k, opt = seq[i]
        if k != 'var':
            continue
        # operands fed after this one on some path (an operand on the other arm of a match does not follow it)
        reach = hb.reachable_from([u.bb])
        followers = [u2 for (u2, _k2, _o2) in seq[i + 1:] if u2.bb in reach and u2.bb != u.bb]
        if not followers:
            continue
        mine = entry_fields(u)
        has_len = any(k0 == 'len' and (entry_fields(u0) & mine) and hb.dominates(u0.bb, u.bb) for (u0, k0, _o) in seq[:i])
        if not has_len:
            bad.append((u, followers[0]))
    # an optional trailing operand whose absence is not encoded
    presence = []
    for i, (u, k, opt) in enumerate(seq):
        if opt and k == 'var':
            # is there an update on the complementary arm (presence byte) or a preceding presence/len operand?
            prev = seq[i - 1] if i > 0 else None
            enc = prev is not None and prev[1] == 'len'
            # the Option place this operand is conditional on
            optplaces = set()
            for c in F.dominating_conds(hb, u.bb):
                if c.kind == 'disc':
                    optplaces.add(c.expr.strip().show())
            if not enc and prev is not None and prev[1] == 'fixed' and not prev[2]:
                # unconditional presence byte: `&[entry.value.is_some() as u8]` (or is_none / the discriminant itself)
                pe = hb.expr(prev[0].args[1])
                for x in pe.walk():
                    if x.k == 'call' and re.search(r'Option::<.*>::is_(some|none)$|Option<.*>::is_(some|none)$', x.a) and x.b:
                        if x.b[0].strip().show() in optplaces:
                            enc = True
                    if x.k == 'disc' and x.a.strip().show() in optplaces:
                        enc = True
            if not enc and prev is not None and prev[1] == 'fixed' and prev[2]:
                # two-arm form: a constant marker on the Some arm and a different constant marker on the None arm
                mine = hb.expr(prev[0].args[1]).show()
                mydisc = [c for c in F.dominating_conds(hb, u.bb) if c.kind == 'disc']
                for (u3, k3, opt3) in seq:
                    if u3 is prev[0] or u3 is u or k3 != 'fixed' or not opt3:
                        continue
                    for c3 in F.dominating_conds(hb, u3.bb):
                        if c3.kind != 'disc':
                            continue
                        for c in mydisc:
                            if c3.expr.show() == c.expr.show() and c3.value != c.value and hb.expr(u3.args[1]).show() != mine:
                                enc = True
            if not enc:
                presence.append(u)
    okf = not bad
    ctx.ob('FRAMING', 'mac-input-injective', okf, (bad[0][1].where() if bad else hb.where()),
           ('MAC input is not injective: variable-length %s (line %s) is followed by %s (line %s) and its length is not fed to the MAC before it: '
            'bytes can move from one field to the next under the same tag' % (
                hb.expr(bad[0][0].args[1]).brief(80), bad[0][0].ln, hb.expr(bad[0][1].args[1]).brief(80), bad[0][1].ln)) if bad else
           'MAC operands in order: %s' % ', '.join(k for _, k, _ in seq))
    ctx.ob('FRAMING', 'option-presence-encoded', not presence, (presence[0].where() if presence else hb.where()),
           ('an Option field is fed to the MAC only when present, with no presence marker or length: None and Some(empty) share a tag'
            if presence else 'optional operands carry a presence/length marker'))

    # ------------------------------------------------------------------ 4. allocation bounds
    nalloc = 0
    for b in bodies:
        for cs in b.calls(ALLOC_SIZED):
            # the size operand (closed world: every allocation-sizing call of the module is looked at; a size that is a
            # constant or the length of something already in memory / the file's own size needs no bound, anything else —
            # a length prefix, a field of a decoded header or record — does)
            idx = 0 if re.search(r'with_capacity(_and_hasher)?$', cs.callee) else 1
            if idx >= len(cs.args):
                continue
            sz = b.expr(cs.args[idx])
            if sz.const_value() is not None:
                continue
            if _is_memsize(sz):
                continue
            # the value that sizes the allocation: the size expression itself with widenings peeled (a from_le_bytes deeper
            # inside — e.g. the prefix that sized the buffer a header was decoded from — is a different value)
            src = sz
            while True:
                src = src.strip()
                if src.k == 'cast' and str(src.a).startswith('IntToInt'):
                    src = src.b
                else:
                    break
            nalloc += 1
            ordn = sum(1 for o in ctx.obls if o.key.startswith('alloc@%s' % b.id))
            conds = F.dominating_conds(b, cs.bb)
            bounded = False

            def uncast(e):
                # peel lets/refs and lossless widenings (target usize/u64/u128; the sources here are u32/usize)
                while True:
                    e = e.strip()
                    if e.k == 'cast' and str(e.a).startswith('IntToInt') and str(e.c) in ('usize', 'u64', 'u128'):
                        e = e.b
                    else:
                        return e
            names = {uncast(sz).show(), src.show()}
            narrow = None
            for c in conds:
                if c.kind != 'cmp':
                    continue
                # `prefix + k <= limit` bounds the prefix too — provided the sum is formed in a type wider than the prefix
                # (widened first). Formed in the prefix's own 32-bit type it overflows for prefixes near u32::MAX: a debug
                # build panics inside recovery, a release build wraps to a small number and passes the bound.
                for side, oside, ops in ((c.lhs, c.rhs, ('Le', 'Lt')), (c.rhs, c.lhs, ('Ge', 'Gt'))):
                    st_ = side.strip()
                    while st_.k == 'cast' and str(st_.a).startswith('IntToInt'):
                        st_ = st_.b.strip()
                    if st_.k == 'field' and st_.b in ('::0',) and st_.a.strip().k == 'bin':
                        st_ = st_.a.strip()
                    if st_.k == 'bin' and st_.a in ('Add', 'AddWithOverflow', 'AddUnchecked') and c.op in ops:
                        for x_, y_ in ((st_.b, st_.c), (st_.c, st_.b)):
                            if y_.const_value() is None:
                                continue
                            widened = x_.strip().k == 'cast' and str(x_.strip().a).startswith('IntToInt') and str(x_.strip().c) in ('u64', 'usize', 'u128', 'i64', 'i128')
                            if uncast(x_).show() in names:
                                if widened:
                                    cv_ = uncast(oside).const_value()
                                    if not (isinstance(cv_, int) and cv_ >= 0xFFFFFFFF):
                                        bounded = True
                                else:
                                    narrow = c
                l, r = uncast(c.lhs).show(), uncast(c.rhs).show()
                other = None
                if l in names and c.op in ('Le', 'Lt'):
                    other = c.rhs
                elif r in names and c.op in ('Ge', 'Gt'):
                    other = c.lhs
                if other is None:
                    continue
                # a constant bound that a 32-bit prefix can never exceed bounds nothing
                cv = uncast(other).const_value()
                if isinstance(cv, int) and cv >= 0xFFFFFFFF:
                    continue
                bounded = True
            top = uncast(sz)
            if top.k == 'call' and re.search(r'::min$|cmp::min$', top.a):
                bounded = True      # min(x, bound) at the top of the size expression (a min deeper inside bounds something else)
            ctx.ob('ALLOC-BOUND', 'alloc@%s#%d' % (b.id, ordn), bounded, cs.where(),
                   'buffer of %s bytes (a length read from the file) is allocated %s' % (
                       sz.brief(80), 'under an upper bound' if bounded else
                       ('behind a bound computed as `prefix + constant` in the prefix\'s own 32-bit type (%s): for prefixes near u32::MAX the sum overflows — a debug build '
                        'panics inside recovery, a release build wraps and allocates ~4 GiB' % narrow.brief(80) if narrow is not None else
                        'with NO upper bound: a damaged length field requests an arbitrary amount of memory (or panics with capacity overflow)')), entry=b.root)
    ctx.floor('ALLOC-BOUND', 2)

    # ------------------------------------------------------------------ 5. skipped records are counted
    for b in replay:
        loops = L.natural_loops(b)
        if not loops:
            continue
        header = max(loops, key=lambda x: len(x[1]))[0]
        counted = set()
        for bi, si, s in b.stmts():
            if any(isinstance(p, str) and p.endswith('RecoveryStats::entries_failed') for p in s['d'][1:]):
                counted.add(bi)
        fails = []
        for nnode, e in b.edge_nodes().items():
            c = F.edge_cond(b, e)
            if c.kind == 'disc' and c.variant_is(1) and c.expr.k == 'call' and re.search(r'read_exact$|postcard::from_bytes$', c.expr.a):
                # the first read_exact (size prefix) ends the loop; only in-loop data reads count
                fails.append((nnode, c))
            if c.kind == 'bool' and not c.truth and c.expr.k == 'call' and c.expr.a == VERFN:
                fails.append((nnode, c))
        rets = b.return_blocks()
        for nnode, c in fails:
            # skip arms = those from which the loop header is reachable again
            if header not in b.reachable_from([nnode]):
                continue
            if c.expr.a.endswith('read_exact') and 'size_bytes' in c.expr.show():
                continue
            ok, wit = L.must_pass(b, [nnode], counted, [header])
            ctx.ob('REPORTED', 'skip:%s#%d' % (c.expr.a.rsplit('::', 1)[-1], sum(1 for o in ctx.obls if o.rule == 'REPORTED')), ok,
                   b.where(b.line_of_block(F.block_of_node(b, nnode))),
                   'the skip arm of %s %s entries_failed before continuing' % (c.expr.a.rsplit('::', 1)[-1], 'increments' if ok else 'does NOT increment'), entry=b.root)
    ctx.floor('REPORTED', 3)
