"""C10 — global trust is a well-formed distribution that moves with reported behaviour (structural clauses only)."""
import json
import re
import facts as F
import lib as L
import absint as A

EXPLANATION = (
    "Static decision of the structural clauses of C10 on MIR of src/adaptive/trust.rs, src/network.rs and "
    "src/dht_network_manager.rs: (1) PENALTY-TABLE — in update_node_stats every NodeStatisticsUpdate variant increments exactly "
    "the documented counter; CorruptedData and ProtocolViolation add to failed_responses a constant >= the FailedResponse "
    "constant; no failure variant touches correct_responses; report_peer_failure_with_reason maps every PeerFailureReason "
    "variant to the documented update, record_peer_success / failure map to CorrectResponse / FailedResponse; (2) "
    "GUARDED-DIVISION — every f64 division in compute_global_trust_internal and compute_multi_factor_adjustment has a non-zero "
    "constant divisor or is dominated by a > 0 / non-empty test on the divisor's source (no NaN / inf from 0/0); (3) CACHE — "
    "get_trust answers from trust_cache or the constant 0.0, and the cache is written with the vector the computation returns."
    ' (4) FACTOR-* by abstract interpretation of compute_multi_factor_adjustment (interval enclosures and derivative signs over its unfolded paths, nothing executed): the multiplier is finite, never NaN, never negative for all u64 counters; non-decreasing in correct_responses and non-increasing in failed_responses inside each piece and across the `correct + failed > 0` split; a node without a statistics entry is given the all-zero record (first report moves the score in the reported direction). (5) NORMALISE-LAST — nothing touches the vector after the division by its sum. (6) JACOBI — no score map is both looked up and written by key inside one loop (no order-dependent in-place sweep).'
)
NOT_DECIDED = ("sum-to-one beyond NORMALISE-LAST, monotonicity of the power iteration itself in a report (the statistics multiplier is one factor of it), "
               "float-rounding determinism, convergence")
TECHNIQUE = ('static analysis: custom MIR rules over a rustc_private fact dump (who-writes tables, guarded divisions, loop dataflow) plus '
             'abstract interpretation of a loop-free numeric body (interval enclosures and derivative signs over unfolded paths)')
ASSUMPTIONS = ["IEEE-754 division of finite operands by a positive finite divisor is finite"]

ENG = 'adaptive::trust::EigenTrustEngine'
UPD = 'adaptive::trust::NodeStatisticsUpdate'
STATS = 'adaptive::trust::NodeStatistics'


def variant_names(prog, adt):
    return [v['name'] for v in prog.adt(adt)['variants']]


def run(ctx):
    prog = ctx.prog
    # ---- 1. penalty table
    ub = prog.inl(ENG + '::update_node_stats')
    ctx.touch(ub, len(ub.calls()))
    vs = variant_names(prog, UPD)
    table = {}
    writes = []
    for fld in prog.adt_fields(STATS):
        for wb, bi, kind, th in L.field_writes(prog, STATS, fld):
            if wb.id != ub.id or kind != 'assign':
                continue
            e = F.Expr.of_rvalue(ub, th['r'], 12).strip()
            inc = None
            if e.k == 'bin' and e.a == 'Add':
                inc = e.c.const_value() if e.c.const_value() is not None else ('payload' if any(x.k == 'downcast' for x in e.c.walk()) else '?')
            writes.append((bi, fld, inc))
    # arm of the match on the update kind -> the counter writes reachable from it (arms do not fall through;
    # an or-pattern reaches one block from several switch values)
    for nnode, e in ub.edge_nodes().items():
        cd = F.edge_cond(ub, e)
        if cd.kind != 'disc' or 'stats_update' not in cd.expr.show():
            continue
        if isinstance(cd.value, int):
            vals = [cd.value]
        else:
            vals = [i for i in range(len(vs)) if str(i) not in cd.value[1]]
        reach = ub.reachable_from([nnode])
        for v in vals:
            if v < len(vs):
                for bi, fld, inc in writes:
                    if bi in reach and (fld, inc) not in table.setdefault(vs[v], []):
                        table[vs[v]].append((fld, inc))
    want = {'Uptime': ('uptime', 'payload'), 'CorrectResponse': ('correct_responses', 1), 'FailedResponse': ('failed_responses', 1),
            'DataUnavailable': ('failed_responses', 1), 'CorruptedData': ('failed_responses', 'ge'), 'ProtocolViolation': ('failed_responses', 'ge'),
            'StorageContributed': ('storage_contributed', 'payload'), 'BandwidthContributed': ('bandwidth_contributed', 'payload'),
            'ComputeContributed': ('compute_contributed', 'payload')}
    base = None
    for fld, inc in table.get('FailedResponse', []):
        if fld == 'failed_responses':
            base = inc
    for v in vs:
        got = table.get(v, [])
        w = want.get(v)
        if w is None:
            ctx.ob('PENALTY-TABLE', 'update:%s' % v, False, ub.where(), 'NodeStatisticsUpdate::%s is a variant this rule does not know: extend the documented table' % v)
            continue
        okv = len(got) == 1 and got[0][0] == w[0]
        if okv:
            if w[1] == 'ge':
                okv = isinstance(got[0][1], int) and isinstance(base, int) and got[0][1] >= base
            else:
                okv = got[0][1] == w[1]
        ctx.ob('PENALTY-TABLE', 'update:%s' % v, okv, ub.where(),
               'NodeStatisticsUpdate::%s -> %s (documented: %s += %s%s)' % (v, got, w[0], 'constant >= FailedResponse' if w[1] == 'ge' else w[1], '' if w[1] != 'ge' else ' = %s' % base))
    ctx.floor('PENALTY-TABLE', 9)
    # reason mapping
    rb = prog.async_body('network::P2PNode::report_peer_failure_with_reason')
    ctx.touch(rb, len(rb.calls()))
    rvs = variant_names(prog, 'error::PeerFailureReason')
    rmap = {}
    for bi, si, s in rb.stmts():
        r = s['r']
        if r['k'] == 'agg' and r.get('adt') == UPD:
            for cd in F.dominating_conds(rb, bi):
                if cd.kind == 'disc' and 'reason' in cd.expr.show():
                    if isinstance(cd.value, int):
                        rmap.setdefault(rvs[cd.value], set()).add(r['var'])
                    elif isinstance(cd.value, tuple):
                        for i, nm in enumerate(rvs):
                            if str(i) not in cd.value[1]:
                                rmap.setdefault(nm, set()).add(r['var'])
                    break
    # or-patterns share one block reached from several switch values: recover through predecessors
    for bi, si, s in rb.stmts():
        r = s['r']
        if r['k'] == 'agg' and r.get('adt') == UPD:
            for nnode, e in rb.edge_nodes().items():
                c = F.edge_cond(rb, e)
                if c.kind == 'disc' and 'reason' in c.expr.show() and isinstance(c.value, int):
                    if bi in rb.reachable_from([nnode]) and not any(
                            other != nnode and bi in rb.reachable_from([other]) and rb.dominates(nnode, other) for other in []):
                        # reachable from this arm without passing another arm's aggregate
                        others = set(bj for bj, sj, sx in rb.stmts() if sx['r']['k'] == 'agg' and sx['r'].get('adt') == UPD and bj != bi)
                        if bi in rb.reachable_from([nnode], others):
                            rmap.setdefault(rvs[c.value], set()).add(r['var'])
    wantr = {'Timeout': 'FailedResponse', 'ConnectionFailed': 'FailedResponse', 'DataUnavailable': 'DataUnavailable', 'CorruptedData': 'CorruptedData',
             'ProtocolError': 'ProtocolViolation', 'Refused': 'FailedResponse'}
    for nm in rvs:
        got = rmap.get(nm, set())
        w = wantr.get(nm)
        ctx.ob('PENALTY-TABLE', 'reason:%s' % nm, w is not None and got == {w}, rb.where(),
               'PeerFailureReason::%s -> %s (documented: %s)' % (nm, sorted(got), w))
    upd = [c for c in rb.calls() if c.callee.endswith('::update_node_stats')]
    ctx.ob('PENALTY-TABLE', 'reason:applied', bool(upd), rb.where(), 'the mapped update is handed to EigenTrustEngine::update_node_stats: %s' % bool(upd))
    for fid, wantv in (('dht_network_manager::DhtNetworkManager::record_peer_success', 'CorrectResponse'), ('dht_network_manager::DhtNetworkManager::record_peer_failure', 'FailedResponse'),
                       ('network::P2PNode::report_peer_success', 'CorrectResponse')):
        b = prog.async_body(fid)
        ctx.touch(b)
        got = set(r['var'] for r in b.aggregates() if r.get('adt') == UPD)
        ctx.ob('PENALTY-TABLE', 'report:%s' % fid.rsplit('::', 1)[-1], got == {wantv}, b.where(), '%s reports %s (documented: %s)' % (fid.rsplit('::', 1)[-1], sorted(got), wantv))

    # ---- 2. guarded divisions
    nd = 0
    for fid in (ENG + '::compute_global_trust_internal', ENG + '::compute_multi_factor_adjustment'):
        b = prog.inl(fid, keep=r'::compute_multi_factor_adjustment$')
        ctx.touch(b, len(b.calls()))
        for bi, si, s in b.stmts():
            r = s['r']
            if r['k'] != 'bin' or r['op'] != 'Div':
                continue
            dty = L.operand_ty(b, r['b'])
            if dty not in ('f64', 'f32'):
                continue
            nd += 1
            div = b.expr(r['b'])
            cv = div.const_value()
            ok = False
            why = ''
            if cv is not None and cv != 0:
                ok, why = True, 'non-zero constant divisor %s' % cv
            else:
                ok, why = _guarded(b, bi, div)
            key = 'div@%s#%d' % (fid.rsplit('::', 1)[-1], sum(1 for o in ctx.obls if o.key.startswith('div@%s' % fid.rsplit('::', 1)[-1])))
            ctx.ob('GUARDED-DIVISION', key, ok, b.where(s.get('ln')), 'f64 division by %s: %s' % (div.brief(60), why))
        # `x / &y` on floats goes through the Div trait
        for c in b.calls():
            if not (c.declared.endswith('ops::Div::div') or c.declared.endswith('ops::arith::Div::div')) or len(c.args) < 2:
                continue
            t0 = (L.operand_ty(b, c.args[0]) or '') + (L.operand_ty(b, c.args[1]) or '')
            if 'f64' not in t0 and 'f32' not in t0:
                continue
            nd += 1
            div = b.expr(c.args[1])
            cv = div.const_value()
            if cv is not None and cv != 0:
                ok, why = True, 'non-zero constant divisor %s' % cv
            else:
                ok, why = _guarded(b, c.bb, div)
            key = 'div@%s#%d' % (fid.rsplit('::', 1)[-1], sum(1 for o in ctx.obls if o.key.startswith('div@%s' % fid.rsplit('::', 1)[-1])))
            ctx.ob('GUARDED-DIVISION', key, ok, c.where(), 'f64 division (Div trait) by %s: %s' % (div.brief(60), why))
    ctx.floor('GUARDED-DIVISION', 8)

    # ---- 3. cache
    gt = prog.body('<%s as adaptive::TrustProvider>::get_trust' % ENG)
    ctx.touch(gt, len(gt.calls()))
    okc = True
    for d in gt.defs().get(0, []):
        if d[0] == 's':
            e = F.Expr.of_rvalue(gt, d[3]['r'], 20)
            cvv = e.const_value()
            if cvv is not None:
                okc = okc and cvv == 0.0
            else:
                okc = okc and 'trust_cache' in e.show()
        else:
            cs = F.CallSite(gt, d[1], d[3])
            e = F.Expr('call', cs.callee, [gt.expr(a) for a in cs.args], cs)
            okc = okc and 'trust_cache' in e.show() and (e.mentions_call(r'unwrap_or$') is None or e.mentions_call(r'unwrap_or$').b[1].const_value() == 0.0)
    ctx.ob('CACHE', 'get_trust', okc and bool(gt.defs().get(0)), gt.where(), 'get_trust returns the trust_cache entry or the constant 0.0: %s' % okc)
    cb = prog.inl(ENG + '::compute_global_trust_internal', keep=r'::compute_multi_factor_adjustment$')
    ins = [c for c in cb.calls(r'HashMap::<.*>::insert$') if 'trust_cache' in cb.expr(c.args[0]).show()]
    # the score vector, by role: the map of f64 scores that the computation returns
    tv_role = set()
    for d in cb.defs().get(0, []):
        if d[0] == 's' and 'p' in d[3]['r'].get('o', {}) and len(d[3]['r']['o']['p']) == 1:
            l0 = d[3]['r']['o']['p'][0]
            if 'HashMap<' in cb.local_ty(l0) and 'f64' in cb.local_ty(l0):
                tv_role |= L.alias_of(cb, [l0])
    okw = False
    for c in ins:
        sl = cb.backward_locals([c.args[2]['p'][0]], limit=1500) if 'p' in c.args[2] else set()
        okw = bool(sl & tv_role)
    retv = bool(tv_role)
    ctx.ob('CACHE', 'cache-written-from-result', okw and retv, cb.where(), 'trust_cache is filled from trust_vector (%s), which is what the computation returns (%s)' % (okw, retv))
    ctx.floor('CACHE', 2)

    # ---- normalisation is the last thing that happens to the scores
    # "scores sum to 1": after total = sum(values(trust_vector)) nothing but the division by that total may change an
    # entry of trust_vector (a later clamp, boost, decay, insert or removal breaks the sum); the published caches are
    # filled after it (CACHE above) and the vector itself is returned.
    tv = set(tv_role)
    MUTV = r'HashMap::<.*>::(iter_mut|values_mut|insert|get_mut|entry|retain|remove|clear|extend|drain|remove_entry)$'

    def on_tv(c):
        if not c.args:
            return False
        return bool(set(x.a for x in cb.expr(c.args[0]).walk() if x.k in ('let', 'local') and isinstance(x.a, int)) & tv)
    sums = [c for c in cb.calls(r'iter::Iterator::sum$|Iterator>::sum$|Iterator::sum$') if on_tv(c) or L.touches(cb, cb.expr(c.args[0]), tv)]
    order = L.rpo(cb)
    sums.sort(key=lambda c: order.get(c.bb, 10**6))
    if not sums:
        ctx.ob('NORMALISE-LAST', 'normalise', False, cb.where(), 'no sum over trust_vector found: the normalisation step is missing')
    else:
        S = sums[-1]
        after = cb.reachable_from([S.bb])
        muts = [c for c in cb.calls(MUTV) if on_tv(c) and c.bb in after and c.bb != S.bb]
        muts.sort(key=lambda c: order.get(c.bb, 10**6))
        # whole-vector reassignment after the sum
        reassigned = [d for l in tv for d in cb.defs().get(l, []) if d[1] in after and d[1] != S.bb and cb.local_ty(l).startswith('std::collections::HashMap<') and cb.local_name(l) is not None]
        norm = None
        if muts:
            c0 = muts[0]
            loops = [(h, ns) for h, ns in L.natural_loops(cb) if any(
                cs2.bb in ns for cs2 in cb.calls() if cs2.declared.endswith('iter::Iterator::next') and on_tv_iter(cb, cs2, c0))]
            sumdst = S.dest[0] if S.dest else None
            for h, ns in loops:
                for bi, si, st in cb.stmts():
                    if bi in ns and st['r']['k'] == 'bin' and st['r']['op'] in ('Div',):
                        dv = F.Expr.of_operand(cb, st['r']['b'], 20)
                        if sumdst is not None and any(x.k in ('let', 'local') and x.a == sumdst for x in dv.walk()):
                            norm = c0
        extra = [c for c in muts if c is not norm]
        okn = norm is not None and not extra and not reassigned
        ctx.ob('NORMALISE-LAST', 'normalise', okn, (extra[0].where() if extra else S.where()),
               ('after total = sum(trust_vector) the only change to trust_vector is the division of every entry by that total' if okn else
                ('no loop dividing every entry by the total follows the sum' if norm is None else
                 ('trust_vector is changed again after normalisation (%s at line %s): the published scores need not sum to 1' % (extra[0].short(), extra[0].ln))
                 if extra else 'trust_vector is reassigned after the sum was taken')), entry=cb.root)
    ctx.floor('NORMALISE-LAST', 1)
    numeric_rules(ctx, prog, cb)
    jacobi_rule(ctx, prog, cb)


def numeric_rules(ctx, prog, cb):
    """FACTOR-* : numeric clauses of the per-node statistics multiplier, decided by abstract interpretation (interval
    enclosures and derivative signs over the unfolded paths of compute_multi_factor_adjustment; nothing is executed)."""
    fb = prog.inl(ENG + '::compute_multi_factor_adjustment')      # with its private helpers spliced in
    ctx.touch(fb, len(fb.calls()))
    U64 = (0.0, float(2 ** 64))
    try:
        paths = A.unfold(fb)
    except A.Unsupported as e:
        ctx.ob('FACTOR-RANGE', 'factor:shape', False, fb.where(), 'compute_multi_factor_adjustment is not a loop-free numeric body any more (%s): its range cannot be enclosed (fail closed)' % e)
        return
    fields = set(prog.adt_fields(STATS))
    ins = set()
    for conds, t, ln in paths:
        A.inputs_of(t, ins)
        for c in conds:
            if c[0] != 'switch':
                A.inputs_of(c[1], ins)
                A.inputs_of(c[2], ins)
    foreign = sorted(x for x in ins if x.split('.')[-1] not in fields)
    base = {x: U64 for x in ins}
    pieces = [(conds, t) for conds, t, ln in paths]
    # 1. range: every piece is finite, never NaN, never negative (a negative or NaN multiplier poisons the normalised scores)
    lo_all, hi_all, bad = None, None, []
    for i, (conds, t) in enumerate(pieces):
        r = A.refine(base, conds)
        iv = A.interval(t, r)
        if iv[2] or iv[0] < -1e-9 or iv[1] == A.INF:
            bad.append('piece %d [%s]: value in [%g, %g]%s' % (i, ' and '.join('%s %s %s' % (A.show(c[1]), c[0], A.show(c[2])) for c in conds if c[0] != 'switch') or 'always',
                                                             iv[0], iv[1], ' or NaN' if iv[2] else ''))
        lo_all = iv[0] if lo_all is None else min(lo_all, iv[0])
        hi_all = iv[1] if hi_all is None else max(hi_all, iv[1])
    ctx.ob('FACTOR-RANGE', 'factor:finite-nonnegative', not bad and not foreign, fb.where(),
           ('for all u64 statistics the multiplier lies in [%.4g, %.4g]: finite, never NaN, never negative (%d path(s) enclosed)' % (max(lo_all, 0.0), hi_all, len(pieces)))
           if not bad and not foreign else
           ('the multiplier can leave [0, inf): %s' % '; '.join(bad) if bad else 'the multiplier reads inputs that are not NodeStatistics counters: %s' % foreign), entry=fb.id)
    # 2. monotone in the response counters inside every piece, and across the pieces
    for var, want, word in (('correct_responses', '+', 'one more success never lowers'), ('failed_responses', '-', 'one more failure never raises')):
        if var not in ins:
            ctx.ob('FACTOR-MONOTONE', 'factor:%s' % var, False, fb.where(), 'the multiplier no longer reads %s' % var, entry=fb.id)
            continue
        probs = []
        for i, (conds, t) in enumerate(pieces):
            r = A.refine(base, conds)
            sg = A.dsign(t, var, r)
            if sg not in (want, '0'):
                probs.append('inside piece %d the multiplier is %s in %s' % (i, {'?': 'not provably monotone', '+': 'increasing', '-': 'decreasing'}[sg], var))
        for ib, ia, iv in A.piece_steps(pieces, var, base):
            okstep = (not iv[2]) and (iv[0] >= -1e-9 if want == '+' else iv[1] <= 1e-9)
            if not okstep:
                probs.append('stepping %s by one from piece %d into piece %d changes the multiplier by [%g, %g]' % (var, ib, ia, iv[0], iv[1]))
        ctx.ob('FACTOR-MONOTONE', 'factor:%s' % var, not probs, fb.where(),
               ('%s the multiplier: derivative sign %s on every path and every step between the %d pieces has that sign' % (word, want, len(pieces)))
               if not probs else ('%s is NOT guaranteed: %s' % (word, '; '.join(probs[:3]))), entry=fb.id)
    # 3. creating the statistics entry: a node without an entry is not multiplied at all (implicit factor 1.0) when the
    #    application site is guarded by `if let Some(stats) = node_stats.get(node)`; the first success report creates the
    #    entry (all other counters 0), so the multiplier for {correct >= 1, failed = 0, rest = 0} must not be below 1.0
    implicit = None
    site = None
    for cs in cb.calls(r'::compute_multi_factor_adjustment$'):
        site = cs
        for c in F.dominating_conds(cb, cs.bb):
            if c.kind == 'disc' and c.variant_is(1) and c.expr.mentions_call(r'HashMap::<.*>::get$') is not None and 'node_stats' in c.expr.show():
                implicit = 1.0
    if site is None:
        ctx.ob('FACTOR-ENTRY', 'factor:first-report', False, cb.where(), 'compute_multi_factor_adjustment is no longer applied in compute_global_trust_internal')
    elif implicit is None:
        # applied to every node: the statistics of a node without an entry must be the all-zero record (the derived Default), so
        # that "no entry" equals "empty entry" and the first report is an ordinary step of the counters (FACTOR-MONOTONE above)
        arg = cb.expr(site.args[1]) if len(site.args) > 1 else None
        fb_ = arg.mentions_call(r'Option::<.*>::(unwrap_or|unwrap_or_else|unwrap_or_default|map_or|map_or_else)$') if arg is not None else None
        okd = True
        why = 'the statistics argument is not optional'
        if fb_ is not None:
            dflt = arg.mentions_call(r'<adaptive::trust::NodeStatistics as (std|core)::default::Default>::default$')
            derived = any(i.get('derived') and str(i.get('self_ty')) == STATS and str(i.get('trait', '')).endswith('default::Default') for i in prog.impls)
            okd = fb_.a.endswith('unwrap_or_default') or (dflt is not None)
            okd = okd and derived
            why = ('a node without an entry is given NodeStatistics::default() (derived: all counters 0)' if okd else
                   'a node without an entry is given statistics other than the all-zero default (%s): its first report need not move the score in the reported direction' % fb_.brief(80))
        ctx.ob('FACTOR-ENTRY', 'factor:first-report', okd, site.where(), 'the multiplier is applied to every node; %s' % why, entry=cb.root)
    else:
        first = {x: (0.0, 0.0) for x in ins}
        if 'correct_responses' in first:
            first['correct_responses'] = (1.0, U64[1])
        lo = None
        for conds, t in pieces:
            r = A.refine(first, conds)
            if any(v[0] > v[1] for k, v in r.items() if k != '__pos__'):
                continue
            # is the piece compatible with correct >= 1? (L <= 0 pieces are not)
            feasible = True
            for c in conds:
                if c[0] in ('Le', 'Lt', 'Eq'):
                    la = A.linform(c[1])
                    if la is not None and 'correct_responses' in la[0] and la[0]['correct_responses'] > 0:
                        feasible = False
            if not feasible:
                continue
            iv = A.interval(t, r)
            lo = iv[0] if lo is None else min(lo, iv[0])
        okf = lo is not None and lo >= implicit - 1e-9
        ctx.ob('FACTOR-ENTRY', 'factor:first-report', okf, site.where(),
               ('a node without a statistics entry keeps its score (implicit multiplier 1.0); after its first success report the '
                'multiplier is >= %.3g' % lo) if okf else
               ('a node without a statistics entry is not multiplied (implicit 1.0), but the first success report creates the entry and the '
                'multiplier for {correct >= 1, failed = 0, other counters 0} can be as low as %.3g: the first success ever reported LOWERS the '
                'node\'s share of the normalised scores' % (lo if lo is not None else float('nan'))), entry=cb.root)
    ctx.floor('FACTOR-RANGE', 1)
    ctx.floor('FACTOR-MONOTONE', 2)
    ctx.floor('FACTOR-ENTRY', 1)


def jacobi_rule(ctx, prog, cb):
    """JACOBI — equal histories give equal scores only if a propagation round reads the previous vector and writes a fresh one:
    inside one loop no score map (HashMap<_, f64>) may be both looked up by key (get / index / contains_key, or handed to an
    in-crate callee by shared reference) and written by key (insert / get_mut / entry / index_mut / remove). An in-place sweep
    makes every entry depend on the order in which the others were refreshed, i.e. on hash iteration order, and the rounds
    are cut off long before convergence for large networks."""
    scope = prog.reach([cb.root], depth=3)
    nloops = 0
    bad = []
    for bid in sorted(scope):
        b = prog.bodies[bid]
        if b.file != cb.file or b.derived:
            continue
        ctx.touch(b)

        def root_of(op):
            e = b.expr(op).strip()
            for _ in range(12):
                if e.k in ('let',):
                    e = e.c.strip()
                elif e.k == 'call' and F.TRANSPARENT.match(e.a) and e.b:
                    e = e.b[0].strip()
                elif e.k == 'field':
                    e = e.a.strip()
                else:
                    break
            if e.k in ('param', 'local', 'let'):
                return (e.k, e.a)
            return None

        def is_score_map(op):
            t = L.operand_ty(b, op) or ''
            if 'p' in op:
                t = b.local_ty(op['p'][0])
            return 'HashMap<' in t and 'f64' in t
        loops = L.source_loops(b)
        for h, ns in loops:
            nloops += 1
            reads, writes = {}, {}
            for cs in b.calls():
                if cs.bb not in ns or not cs.args:
                    continue
                if re.search(r'HashMap::<.*>::(get|contains_key|get_key_value)$|ops::Index<.*>>::index$', cs.callee):
                    r0 = root_of(cs.args[0])
                    if r0 is not None and _score_ty(b, r0):
                        reads.setdefault(r0, cs)
                elif re.search(r'HashMap::<.*>::(insert|get_mut|entry|remove|remove_entry)$|ops::IndexMut<.*>>::index_mut$', cs.callee):
                    r0 = root_of(cs.args[0])
                    if r0 is not None and _score_ty(b, r0):
                        writes.setdefault(r0, cs)
                elif cs.local and prog.has_body(cs.callee):
                    for a in cs.args:
                        r0 = root_of(a)
                        if r0 is not None and _score_ty(b, r0):
                            ty = L.operand_ty(b, a) or ''
                            if ty.startswith('&mut'):
                                writes.setdefault(r0, cs)
                                reads.setdefault(r0, cs)
                            else:
                                reads.setdefault(r0, cs)
            for m in reads:
                if m in writes:
                    bad.append((b, reads[m], writes[m], m))
    ctx.ob('JACOBI', 'no-in-place-sweep', not bad, (bad[0][2].where() if bad else cb.where()),
           ('%d loops of the trust computation inspected: no score map is both looked up and updated by key inside one loop (each round reads the '
            'previous vector and builds a new one)' % nloops) if not bad else
           ('%s: the score map `%s` is looked up (line %s) and written (line %s) inside the same loop — an in-place sweep whose result depends on '
            'iteration order; equal histories need not give equal scores' % (bad[0][0].id.rsplit('::', 2)[-1] if bad[0][0].id.endswith('}') else bad[0][0].id.rsplit('::', 1)[-1],
                                                                             bad[0][0].local_name(bad[0][3][1]) or bad[0][3][1], bad[0][1].ln, bad[0][2].ln)), entry=cb.root)
    ctx.floor('JACOBI', 1)


def _score_ty(b, r0):
    t = b.local_ty(r0[1]) if isinstance(r0[1], int) and r0[1] < len(b.locals) else ''
    return 'HashMap<' in t and 'f64' in t


def on_tv_iter(cb, nxt, mutcall):
    """is `nxt` (an Iterator::next call) iterating the IterMut produced by `mutcall`?"""
    e = cb.expr(nxt.args[0])
    for x in e.walk():
        if x.k == 'call' and x.c is not None and x.c.bb == mutcall.bb and x.a == mutcall.callee:
            return True
    return False


def _guarded(b, bb, div):
    """is the divisor known positive / non-zero at bb?"""
    conds = F.dominating_conds(b, bb)
    dtxt = div.strip().show()
    dtxt = dtxt.lstrip('*&')
    # x > 0 (or x >= c>0) on the same expression
    for cd in conds:
        if cd.kind == 'cmp':
            for x, y, op in ((cd.lhs, cd.rhs, cd.op), (cd.rhs, cd.lhs, F.CMP_FLIP[cd.op])):
                xv = x.strip().show().lstrip('*&')
                yv = y.const_value()
                if yv is not None and op in ('Gt',) and yv >= 0 and (xv == dtxt or (xv in dtxt and dtxt.startswith('(') and ' as f64' in dtxt)):
                    return True, 'dominated by %s' % cd.brief(80)
                if yv is not None and op == 'Ge' and yv > 0 and xv == dtxt:
                    return True, 'dominated by %s' % cd.brief(80)
    # len() as f64 under a non-empty test of the same collection
    ln = div.mentions_call(r'::len$')
    if ln is not None and ln.b:
        coll = ln.b[0].strip().show()
        for cd in conds:
            if cd.kind == 'bool' and not cd.truth and cd.expr.mentions_call(r'::is_empty$') is not None:
                ie = cd.expr.mentions_call(r'::is_empty$')
                if ie.b and ie.b[0].strip().show() == coll:
                    return True, 'len() of a collection tested non-empty (%s)' % cd.brief(60)
    # a sum of two counters tested > 0: (a + b) as f64 under (a + b) > 0
    inner = div.strip()
    if inner.k == 'cast':
        it = inner.b.strip().show()
        for cd in conds:
            if cd.kind == 'cmp':
                for x, y, op in ((cd.lhs, cd.rhs, cd.op), (cd.rhs, cd.lhs, F.CMP_FLIP[cd.op])):
                    if x.strip().show() == it and y.const_value() is not None and op == 'Gt' and y.const_value() >= 0:
                        return True, 'dominated by %s' % cd.brief(80)
                    if x.strip().show() == it and y.const_value() == 0 and op == 'Ne' and re.match(r'^u(8|16|32|64|128|size)$', str(inner.b.strip().k == 'bin' and 'u64' or L.operand_ty(b, {'p': [0]}) or 'u64')):
                        return True, 'dominated by %s (unsigned, so > 0)' % cd.brief(80)
    return False, 'no dominating test shows the divisor non-zero (0/0 would poison every score with NaN)'
