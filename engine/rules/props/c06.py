"""C06 — acknowledged state survives a crash; recovery is a prefix (structural clauses)."""
import json
import re
import facts as F
import lib as L

EXPLANATION = (
    "Static decision of necessary structural conditions of C06 on MIR of src/persistent_state.rs: (1) LOG-BEFORE-APPLY — in "
    "every public mutating API the acquisition of the in-memory state write guard is dominated by the Ok edge of the log "
    "write; (2) ORDER — checkpoint: sync_all Ok -> rename(tmp, final) Ok -> deletion of covered logs / old snapshots; "
    "rotate: sync_all Ok -> rename Ok -> reopen; flush on the Always arm before write_entry returns Ok; (3) KEY-PERSIST — the "
    "key that authenticates on-disk records must not be fresh RNG output that never touches a file; (4) CANONICAL — the digest "
    "compared with the snapshot header is computed over bytes read from the file, not over a re-serialised HashMap; (5) "
    "REPLAY-ORDER — the file-name scheme (format templates of the active and rotated logs) agrees with the sort used for "
    "replay, and the newest snapshot is tried first; (6) COUNTER — writers of the transaction counter are +1 in the APIs and "
    "raise-only (or pre-replay) in recovery."
    ' (7) REPLAY-TOTAL — every record shape a mutating API logs (type x value presence) is understood by replay, and from the true edge of the MAC check every path to the next record changes the state map or counts a failure (no verified record is filtered away).'
)
NOT_DECIDED = "torn writes, byte truncation of the last record, rotation collisions within one second, every concrete crash point"
ASSUMPTIONS = ["std::fs::rename is atomic on the target file system", "File::write_all hands bytes to the OS before returning"]

MGR = 'persistent_state::PersistentStateManager'
MGRT = 'persistent_state::PersistentStateManager::<T>'
WW = 'persistent_state::WalWriter'
FILE = 'src/persistent_state.rs'


def _bodies(prog):
    return list(prog.bodies.in_files([FILE]))


def run(ctx):
    prog = ctx.prog
    prog.adt(MGR)
    prog.adt(WW)
    bodies = _bodies(prog)
    for b in bodies:
        ctx.touch(b, len(b.calls()))
    # analysis units for the path / file-system rules: every routine of the module with its private same-file helpers spliced
    # in; a private helper that only works for other routines is seen there and not judged on its own
    def _is_helper(b_):
        rb_ = prog.bodies.get(b_.root)
        if rb_ is None or rb_.is_pub or rb_.impl_trait:
            return False
        owners = prog.owner_roots(b_.root)
        return bool(owners) and owners != {b_.root}
    helper_roots = sorted(set(b_.root for b_ in bodies if not b_.parent and _is_helper(b_) and not re.search(r'::(rotate|write_entry|new)$', b_.root)
                              and not b_.root.startswith(MGRT + '::')))
    # (methods of the manager keep their identity — the rules name them; free functions and helper-type methods are spliced)
    only_rx = '|'.join(re.escape(h) + '(::\\{closure#0\\})?$' for h in helper_roots) if helper_roots else None
    units = []
    for b_ in bodies:
        if b_.root in helper_roots:
            continue
        if b_.is_async and prog.has_body(b_.id + '::{closure#0}'):
            continue        # the coroutine body is the unit
        if only_rx and (not b_.parent or b_.is_coroutine):
            units.append(prog.inl(b_.id, only=only_rx))
        else:
            units.append(b_)

    # ------------------------------------------------------------------ 1. log before apply
    # public mutating APIs = pub `&self` methods of the manager whose body applies a change to the
    # in-memory map: takes the `state` write guard itself or calls a helper that does (helpers that
    # replay the log — they reach verify_wal_entry — are recovery, not mutation).
    logger = L.MustPassSummary(prog, lambda cs: cs.callee.endswith('WalWriter::write_entry'), depth=ctx.depth())

    def takes_state_write(bid, depth=3, _seen=None):
        _seen = _seen if _seen is not None else set()
        if bid in _seen or bid not in prog.bodies:
            return False
        _seen.add(bid)
        for i in prog.family(bid):
            bb = prog.bodies[i]
            if any(g.mode == 'write' and g.lock_field() == 'state' for g in L.guards(bb)):
                return True
            if depth > 0:
                for cs in bb.calls():
                    if cs.local and cs.callee.startswith(MGRT) and takes_state_write(cs.callee, depth - 1, _seen):
                        return True
        return False

    def is_replay(bid):
        return prog.reaches_call(bid, lambda cs: cs.callee == L.wal_roles(prog)[1], depth=3)

    n_api = 0
    for rid in sorted(set(b.root for b in bodies if b.root.startswith(MGRT + '::'))):
        rootb = prog.bodies.get(rid)
        if rootb is None or not rootb.is_pub or rootb.argc < 1 or not rootb.local_ty(1).startswith('&'):
            continue
        body = prog.async_body(rid)
        applies = []
        for g in L.guards(body):
            if g.mode == 'write' and g.lock_field() == 'state':
                applies.append((g.acq.bb, g.acq.ln, 'state.write()'))
        for cs in body.calls():
            base = cs.callee[:-len('::{closure#0}')] if cs.callee.endswith('::{closure#0}') else cs.callee
            if cs.local and base.startswith(MGRT) and base != rid and not is_replay(base) and takes_state_write(base):
                if cs.callee.endswith('::{closure#0}') or not prog.bodies[base].is_async:
                    applies.append((cs.bb, cs.ln, base.rsplit('::', 1)[-1] + '()'))
        if not applies:
            continue
        n_api += 1
        logs = logger.sites(body)
        for i, (abb, aln, what) in enumerate(applies):
            key = 'apply@%s' % body.id if i == 0 else 'apply#%d@%s' % (i, body.id)
            ok = False
            why = 'no (transitive) call that writes the log record in this body'
            for cs in logs:
                te = F.try_edges(body, cs)
                if te and te[0] is not None and body.dominates(te[0], abb):
                    ok = True
                    why = 'in-memory apply %s (line %s) is dominated by the Ok edge of the log write (line %s)' % (what, aln, cs.ln)
                    break
                why = ('in-memory apply %s at line %s is not dominated by the Ok edge of the log write at line %s '
                       '(applied before / without a successful log write)' % (what, aln, cs.ln))
            ctx.ob('LOG-BEFORE-APPLY', key, ok, body.where(aln), why, entry=rid)
    ctx.floor('LOG-BEFORE-APPLY', 3)

    # ------------------------------------------------------------------ 2. ordering in checkpoint / rotate / write_entry
    for b in units:
        rn = b.calls(r'^std::fs::rename$')
        for cs in rn:
            key = 'rename@%s' % b.id
            syncs = [c for c in b.calls(r'fs::File::sync_all$|fs::File::sync_data$')]
            oks = False
            for s in syncs:
                te = F.try_edges(b, s)
                if te and te[0] is not None and F.holds_at(b, te[0], cs.bb):
                    oks = True
            ctx.ob('SYNC-BEFORE-RENAME', key, oks, cs.where(),
                   'rename is%s dominated by the Ok edge of a sync_all on the file being published' % ('' if oks else ' NOT'), entry=b.root)
            # what must come after the rename's Ok edge: deletions (checkpoint) / reopen (rotate)
            te = F.try_edges(b, cs)
            after = [c for c in b.calls() if c.local and prog.reaches_call(c.callee, lambda x: x.callee.endswith('fs::remove_file'), depth=3)]
            after += b.calls(r'fs::remove_file$')
            if b.id.startswith(WW):
                after += b.calls(r'OpenOptions::open$')
            for c in after:
                okd = te is not None and te[0] is not None and b.dominates(te[0], c.bb)
                ctx.ob('RENAME-BEFORE-DELETE', 'after-rename:%s:%s' % (b.id, c.short()), okd, c.where(),
                       '%s is%s dominated by the Ok edge of the rename' % (c.short(), '' if okd else ' NOT'), entry=b.root)
            # the renamed source is a temp path / the active path, never written in place
    ctx.floor('SYNC-BEFORE-RENAME', 2)
    ctx.floor('RENAME-BEFORE-DELETE', 3)
    # checkpoint writes only to a path derived from with_extension("tmp")
    for b in units:
        if not b.root.startswith(MGRT + '::checkpoint'):
            continue
        for cs in b.calls(r'OpenOptions::open$'):
            p = b.expr(cs.args[1])
            tmp = p.mentions_call(r'Path::with_extension$')
            okp = tmp is not None
            ctx.ob('TEMP-THEN-RENAME', 'open@%s' % b.id, okp, cs.where(),
                   'the snapshot is written to %s' % ('a with_extension(..) temp path' if okp else 'a path that is not the temp path: ' + p.brief()))
            for rn in b.calls(r'^std::fs::rename$'):
                src = b.expr(rn.args[0]).strip().show()
                same = src == p.strip().show()
                ctx.ob('TEMP-THEN-RENAME', 'rename-src@%s' % b.id, same, rn.where(),
                       'rename source %s the file just written and synced' % ('is' if same else 'is NOT'))
    ctx.floor('TEMP-THEN-RENAME', 2)
    we = prog.body(WW + '::write_entry')
    # write_entry writes the size prefix then the record, both with `?`
    wa = we.calls(r'io::Write>::write_all$|io::Write::write_all$')
    okw = len(wa) >= 2 and all(F.try_edges(we, c) is not None for c in wa)
    ctx.ob('WRITES-CHECKED', 'write_entry:writes-checked', okw, we.where(),
           '%d write_all calls, each propagating its error with `?`' % len(wa))

    # ------------------------------------------------------------------ 3. key persistence
    for b in bodies:
        for bi, si, s in b.stmts():
            r = s['r']
            if r['k'] == 'agg' and r.get('adt') == MGR:
                op = L.agg_field_operand(s, 'hmac_key')
                if op is None:
                    ctx.anchor_fail('KEY-PERSIST', MGR + '.hmac_key')
                    continue
                e = b.expr(op)
                # where the key bytes are produced: this body and the local helpers its expression calls
                scope = [b]
                for x in e.walk():
                    if x.k == 'call' and prog.has_body(x.a):
                        cb = prog.async_body(x.a)
                        if cb not in scope:
                            scope.append(cb)

                def locs(bd, a):
                    return set(x.a for x in bd.expr(a).walk() if x.k in ('local', 'let', 'param') and isinstance(x.a, int))
                rng, written, read = [], [], []
                for sb in scope:
                    rbufs = set()
                    for cs in sb.calls():
                        if re.search(r'(RngCore>::fill_bytes|RngCore::fill_bytes|Rng>::fill|Rng::fill|RngCore>::try_fill_bytes|getrandom)', cs.callee + cs.declared):
                            rng.append(cs)
                            for a in cs.args[1:]:
                                rbufs |= locs(sb, a)
                                if 'p' in a:
                                    rbufs |= sb.backward_locals([a['p'][0]])
                    for cs in sb.calls():
                        if re.search(r'Write>?::write_all$|fs::write$', cs.callee) or re.search(r'Write>?::write_all$|fs::write$', cs.declared):
                            al = set()
                            for a in cs.args:
                                al |= locs(sb, a)
                                if 'p' in a:
                                    al |= sb.backward_locals([a['p'][0]])
                            if al & rbufs and F.try_edges(sb, cs) is not None:
                                written.append(cs)
                        if re.search(r'Read>?::read_exact$|Read>?::read_to_end$|fs::read$', cs.callee) or re.search(r'Read>?::read_exact$|Read>?::read_to_end$|fs::read$', cs.declared):
                            read.append(cs)
                viol = bool(rng) and not (written and read)
                ctx.ob('KEY-PERSIST', 'hmac_key@%s' % b.id, not viol, b.where(s.get('ln')),
                       ('the record-authentication key is filled by %s and %s: records written by an earlier process can never verify after a restart' % (
                           rng[0].short(), 'never written to a file with its error checked' if not written else 'no code path reads a stored key back'))
                       if viol else
                       ('the key is fresh randomness only on first use: it is written to a file (%s, error propagated) and read back (%s) in %s' % (
                           written[0].short(), read[0].short(), ', '.join(sb.id.rsplit('::', 1)[-1] for sb in scope[1:]) or b.id)
                        if rng else 'the key does not come from per-process randomness (%s)' % e.brief(160)), entry=b.root)
    ctx.floor('KEY-PERSIST', 1)

    # ------------------------------------------------------------------ 4. canonical checksum input
    n_cmp = 0
    for b in bodies:
        for cs in b.calls(r'PartialEq.*>::(ne|eq)$'):
            a0, a1 = b.expr(cs.args[0]), b.expr(cs.args[1])
            hdr = None
            for side, other in ((a0, a1), (a1, a0)):
                if side.strip().show().endswith('.checksum'):
                    hdr, digest = side, other
            if hdr is None:
                continue
            n_cmp += 1
            # the digest: finalize(hasher) here, or returned by a local callee (load_snapshot hashes what it read)
            srcs = []   # (body, update call, data expr)

            def collect(bd, ex, depth):
                if ex.mentions_call(r'Digest>::finalize$|Digest::finalize$|FixedOutput') is not None:
                    for u in bd.calls(r'Digest>::update$|Digest::update$|Update>::update$'):
                        srcs.append((bd, u, bd.expr(u.args[1])))
                    return
                if depth <= 0:
                    return
                for x in ex.walk():
                    if x.k == 'call' and prog.has_body(x.a):
                        cb = prog.async_body(x.a)
                        for u in cb.calls(r'Digest>::update$|Digest::update$|Update>::update$'):
                            srcs.append((cb, u, cb.expr(u.args[1])))
            collect(b, digest, 2)
            reser = [(u, d) for bd, u, d in srcs if d.mentions_call(r'postcard::to_(stdvec|allocvec|vec)$|serde_json::to_vec|bincode::serialize')]
            # positive evidence: the hashed buffer is one a file read wrote into
            fromfile = False
            for bd, u, d in srcs:
                dl = set(x.a for x in d.walk() if x.k in ('local', 'let') and isinstance(x.a, int))
                for rc in bd.calls(r'Read>::read_to_end$|Read::read_to_end$|Read>::read_exact$|Read::read_exact$|fs::read$'):
                    al = set()
                    for a in rc.args:
                        for x in bd.expr(a).walk():
                            if x.k in ('local', 'let') and isinstance(x.a, int):
                                al.add(x.a)
                    if al & dl:
                        fromfile = True
            # ... and it is the very buffer the state map is decoded from (not, say, the header bytes)
            covers_state = False
            for bd, u, d in srcs:
                dl = set(x.a for x in d.walk() if x.k in ('local', 'let') and isinstance(x.a, int))
                for dc in bd.calls(r'postcard::from_bytes$|serde_json::from_slice$|bincode::deserialize$'):
                    dst_ty = bd.local_ty(dc.dest[0]) if dc.dest else ''
                    if 'HashMap' not in dst_ty:
                        continue
                    al = set(x.a for a in dc.args for x in bd.expr(a).walk() if x.k in ('local', 'let') and isinstance(x.a, int))
                    if al & dl:
                        covers_state = True
            okc = bool(srcs) and not reser and fromfile and covers_state
            ctx.ob('CANONICAL', 'checksum@%s' % b.id, okc, cs.where(),
                   ('the digest compared with header.checksum is computed over a re-serialisation (%s) of the decoded map: HashMap '
                    'iteration order is not canonical, so a valid snapshot fails its own checksum' % reser[0][1].brief(120)) if reser else
                   ('the digest compared with header.checksum is computed in %s over %s, a buffer filled by a file read' % (
                       srcs[0][0].id.rsplit('::', 2)[-2] if '::' in srcs[0][0].id else srcs[0][0].id, srcs[0][2].brief(120)) if okc else
                    'the digest compared with header.checksum is not computed over the file bytes the state is decoded from (%s)' % (
                        srcs[0][2].brief(120) if srcs else 'no hash input found')),
                   entry=b.root)
    ctx.floor('CANONICAL', 2)

    # ------------------------------------------------------------------ 5. replay order vs naming; newest snapshot first
    active_tpl = rotated_tpl = None
    for b in bodies:
        for cs in b.calls(r'WalWriter::new$'):
            p = b.expr(cs.args[0])
            j = p.mentions_call(r'Path::join$|PathBuf::join$')
            if j is not None and len(j.b) > 1:
                active_tpl = L.string_template(prog, b, j.b[1])
    rot = prog.inl(WW + '::rotate')      # a private helper computing the rotated name is spliced in
    # every name the rotated log can get: all with_file_name / join results in rotate (the name may be
    # recomputed in a loop until unused), each of which must sort on the right side of the active name
    rotated_tpls = []
    for cs in rot.calls(r'Path::with_file_name$|Path::join$|PathBuf::join$'):
        if len(cs.args) > 1:
            t = L.string_template(prog, rot, rot.expr(cs.args[1]))
            rotated_tpls.append(t)
    rotated_tpl = rotated_tpls[0] if rotated_tpls and all(t is not None for t in rotated_tpls) else None
    # sort direction used by find_wal_files
    fw = None
    for b in bodies:
        if b.id.startswith(MGRT + '::find_wal_files::{closure'):
            fw = b
    asc = None
    if fw is not None:
        for cs in fw.calls(r'::cmp$'):
            a0 = fw.expr(cs.args[0]).show()
            a1 = fw.expr(cs.args[1]).show()
            p1 = fw.local_name(1 + 1) if fw.argc >= 2 else None
            # closure params: _2 = a, _3 = b
            na = fw.local_name(2)
            nb = fw.local_name(3)
            if na and nb:
                asc = (na in a0 and nb in a1)
    if active_tpl is None or rotated_tpl is None or asc is None:
        ctx.ob('REPLAY-ORDER', 'wal-name-scheme', False, FILE,
               'cannot determine the log file-name scheme / sort direction (active=%s rotated=%s ascending=%s): fail closed' % (active_tpl, rotated_tpl, asc))
    else:
        def is_int_arg(e):
            for _i in range(4):
                e2 = L._tuple_proj(e) if e is not None else None
                while e2 is not None and e2.k == 'let':
                    e2 = e2.c
                if e2 is e or e2 is None:
                    break
                e = e2
            e = e.strip() if e is not None else None
            while e is not None and e.k in ('ref', 'deref'):
                e = e.a
            if e is not None and e.k in ('local', 'let', 'param') and isinstance(e.a, int):
                return re.fullmatch(r'u(8|16|32|64|128|size)', rot.local_ty(e.a)) is not None
            return False

        def order(active, rotated):
            """-1: every rotated name sorts before the active name, +1: after, None: cannot tell.
            Byte-wise comparison as OsStr::cmp does; an unsigned integer argument renders as 1+ decimal digits."""
            A = ''.join(v for k, v in active) if all(k == 'lit' for k, v in active) else None
            if A is None:
                return None
            i = 0
            for k, v in rotated:
                if k == 'lit':
                    for ch in v:
                        if i >= len(A):
                            return +1           # active is a proper prefix
                        if A[i] != ch:
                            return -1 if ch < A[i] else +1
                        i += 1
                else:
                    if not is_int_arg(v):
                        return None
                    if i >= len(A):
                        return +1
                    if A[i] > '9':
                        return -1
                    if A[i] < '0':
                        return +1
                    return None                 # active continues with a digit: depends on the value
            return None if i == len(A) else -1  # identical names / rotated is a proper prefix

        rels = [order(active_tpl, t) for t in rotated_tpls]
        want = -1 if asc else +1
        good = bool(rels) and all(r == want for r in rels)

        def render(t):
            return ''.join(v if k == 'lit' else '<n>' for k, v in t)
        ctx.ob('REPLAY-ORDER', 'wal-name-scheme', good, rot.where(),
               'logs are replayed in %s file-name order; active log is named %r, rotated logs %s: the active (newest) log is replayed %s' % (
                   'ascending' if asc else 'descending', render(active_tpl), ', '.join(repr(render(t)) for t in rotated_tpls),
                   'last' if good else ('BEFORE the rotated (older) logs, so stale values win' if all(r is not None for r in rels)
                                        else 'in an order that cannot be determined from the names (fail closed)')))
        # rotated names among themselves: all sites use one template (decimal seconds, equal width until 2286)
        same = len(set(render(t) for t in rotated_tpls)) == 1
        ctx.ob('REPLAY-ORDER', 'rotated-names-one-scheme', same, rot.where(),
               'every rotated-log name in rotate() follows one template (%s)' % ', '.join(sorted(set(render(t) for t in rotated_tpls))))
    # the rename that rotates the active log must not land on an existing rotated log (second-granular names):
    # the destination is dominated by the false edge of an exists()/try_exists() test on it
    for cs in rot.calls(r'^std::fs::rename$'):
        okx = False
        why = 'no existence test on the destination dominates the rename'
        for c in F.dominating_conds(rot, cs.bb):
            if c.kind == 'bool' and c.expr.k == 'call' and re.search(r'Path::exists$|Path::try_exists$|fs::exists$', c.expr.a) and not c.truth:
                dst = rot.expr(cs.args[1]).strip().show()
                tested = c.expr.b[0].strip().show() if c.expr.b else ''
                if tested == dst or (dst and tested and (dst in tested or tested in dst)):
                    okx = True
                    why = 'the rename is reached only on the not-exists edge of a test of its destination'
        ctx.ob('ROTATE-UNIQUE', 'rotate-target-unused', okx, cs.where(),
               'rotated names carry a one-second timestamp; %s' % why, entry=rot.root)
    ctx.floor('ROTATE-UNIQUE', 1)
    # snapshot names order = creation order. Recovery ("newest name first") and retention ("delete all but the newest names")
    # both read the name as the age, so the name must be a function of the clock alone: a name chosen by looking at which names
    # are free in the directory (bumped past existing files) runs ahead of the clock, and once retention frees a lower name a
    # LATER snapshot gets an OLDER name — it is deleted as "oldest" right after it superseded the logs it covers.
    for b in bodies:
        if b.id != MGRT + '::generate_snapshot_path':
            continue
        ib = prog.inl(b.id)
        fsq = ib.calls(r'Path::(exists|try_exists|is_file|metadata|symlink_metadata)$|^std::fs::(read_dir|metadata|exists|symlink_metadata)$|::find_snapshots$')
        clock = ib.calls(r'::current_timestamp$|SystemTime::now$|Utc::now$|Instant::now$')
        ctx.ob('REPLAY-ORDER', 'snapshot-name-from-clock-only', bool(clock) and not fsq, (fsq[0].where() if fsq else b.where()),
               'the snapshot file name is derived from the clock only (no look at which names exist)' if clock and not fsq else
               ('the snapshot name depends on the directory contents (%s): names can run ahead of the clock, so a later snapshot can sort as older '
                'than an existing one and be deleted by retention right after its covered logs were removed' % fsq[0].short() if fsq else
                'the snapshot name is not derived from a clock read'), entry=b.root)
    # newest snapshot first: find_snapshots sorts descending and recover_from_snapshot must not reverse it
    fs_desc = None
    for b in bodies:
        if b.id.startswith(MGRT + '::find_snapshots::{closure'):
            for cs in b.calls(r'::cmp$'):
                na, nb = b.local_name(2), b.local_name(3)
                a0 = b.expr(cs.args[0]).show()
                if na and nb:
                    fs_desc = (nb in a0)
    for b in bodies:
        if not b.root.startswith(MGRT + '::recover_from_snapshot'):
            continue
        for cs in b.calls(r'::load_snapshot$'):
            # iteration source feeding load_snapshot
            it = None
            for c2 in b.calls(r'Iterator>::next$|Iterator::next$'):
                it = b.expr(c2.args[0])
            rev = it is not None and it.mentions_call(r'Iterator>::rev$|Iterator::rev$|DoubleEndedIterator') is not None
            newest_first = (fs_desc is True and not rev) or (fs_desc is False and rev)
            ctx.ob('REPLAY-ORDER', 'snapshot-order@%s' % b.id, newest_first, cs.where(),
                   'find_snapshots sorts %s and recovery iterates it %s: the %s snapshot is tried first' % (
                       'newest-first' if fs_desc else 'oldest-first', 'reversed' if rev else 'in order',
                       'newest' if newest_first else 'OLDEST (logs covered by newer snapshots are already deleted)'), entry=b.root)
    ctx.floor('REPLAY-ORDER', 4)

    # ------------------------------------------------------------------ 6. counter writers
    ncw = 0
    for b in bodies:
        gs = [g for g in L.guards(b) if g.lock_field() == 'transaction_counter']
        for g in gs:
            # assignments through the guard: (*deref_mut(&mut g)) = v
            for bi, si, s in b.stmts():
                d = s['d']
                if len(d) == 2 and d[1] == '*':
                    tgt = F.Expr.of_local(b, d[0], 20)
                    if not any(x.k in ('local', 'let') and x.a == g.local for x in tgt.walk()):
                        continue
                    ncw += 1
                    v = F.Expr.of_rvalue(b, s['r'], 20)
                    vs = v.strip()
                    key = 'counter-write@%s#%d' % (b.id, sum(1 for o in ctx.obls if o.key.startswith('counter-write@%s' % b.id)))
                    inc = (vs.k == 'bin' and vs.a == 'Add' and vs.c.const_value() == 1)
                    if inc:
                        ctx.ob('COUNTER', key, True, b.where(s.get('ln')), 'counter += 1')
                        continue
                    # counter = max(counter, x): raise-only by construction
                    if vs.k == 'call' and re.search(r'::max$|cmp::max$', vs.a) and len(vs.b) == 2 and any(
                            any(x.k in ('local', 'let') and x.a == g.local for x in a.walk()) for a in vs.b):
                        ctx.ob('COUNTER', key, True, b.where(s.get('ln')), 'counter = max(counter, %s)' % vs.b[1].brief(40))
                        continue
                    conds = F.dominating_conds(b, bi)
                    raised = False
                    for c in conds:
                        if c.kind == 'cmp':
                            l, r = c.lhs.strip().show(), c.rhs.strip().show()
                            if c.op == 'Gt' and l == vs.show():
                                raised = True
                            if c.op == 'Lt' and r == vs.show():
                                raised = True
                    if raised:
                        ctx.ob('COUNTER', key, True, b.where(s.get('ln')), 'counter = %s only under `%s > counter`' % (vs.brief(), vs.brief()))
                        continue
                    # unguarded store: allowed only in a body that runs before any replay (snapshot load)
                    pre = _runs_before_replay(prog, b)
                    ctx.ob('COUNTER', key, pre, b.where(s.get('ln')),
                           'counter = %s unguarded; %s' % (vs.brief(), 'this body is only called from `recover` before the log replay' if pre else
                                                           'and not provably before the replay: the counter can move backwards'))
    ctx.floor('COUNTER', 3)   # at least: an increment on the write path, the raise-only update in replay, the pre-replay store

    # ------------------------------------------------------------------ 7. the id stamped into the snapshot header
    # The header's last_transaction_id becomes the counter after a restart from that snapshot, so it must be read from a
    # location that never moves backwards while the process runs: the transaction_counter mutex (its writers are the
    # COUNTER obligations above), or a field all of whose writers outside start-up are raise-only and whose owner is
    # never overwritten as a whole.
    HDR = 'persistent_state::SnapshotHeader'
    startup = (MGRT + '::new', WW + '::new', MGR + '::new')
    nh = 0
    CK = MGRT + '::checkpoint'
    for b in bodies:
        if not (b.root.startswith(CK) or prog.owner_roots(b.root, stop={CK}) == {CK}):
            continue
        for bi, si, st in b.stmts():
            r = st['r']
            if not (r['k'] == 'agg' and r.get('adt') == HDR):
                continue
            op = L.agg_field_operand(st, 'last_transaction_id')
            if op is None:
                ctx.anchor_fail('HEADER-ID', HDR + '.last_transaction_id')
                continue
            nh += 1
            e = b.expr(op)
            for _i in range(4):
                e2 = L._tuple_proj(e)
                while e2.k == 'let':
                    e2 = e2.c
                if e2 is e:
                    break
                e = e2
            acq = e.mentions_call(L.LOCK_ACQ)
            from_counter = acq is not None and acq.b and acq.b[0].strip().show().endswith('.transaction_counter')
            srcs = sorted(set(x.b for x in e.walk() if x.k == 'field' and isinstance(x.b, str) and x.b.startswith('persistent_state::')
                              and not re.search(r'Mutex<|RwLock<|Arc<', prog.field_ty(*x.b.rsplit('::', 1)) or '')))
            problems = []
            if not from_counter and not srcs:
                problems.append('its source cannot be identified (%s)' % e.brief(120))
            for fld in ([] if from_counter and not srcs else srcs):
                adt, fname = fld.rsplit('::', 1)
                for wb, wbi, kind, thing in L.field_writes(prog, adt, fname):
                    if wb.root.startswith(startup) or wb.root in startup:
                        continue
                    if kind == 'aggregate':
                        problems.append('%s is re-created in %s (line %s): %s restarts from its initial value' % (
                            adt.rsplit('::', 1)[-1], wb.id.rsplit('::', 1)[-1], thing.get('ln'), fname))
                        continue
                    if kind == 'mut-borrow':
                        problems.append('&mut %s handed out in %s (line %s)' % (fname, wb.id.rsplit('::', 1)[-1], thing.get('ln')))
                        continue
                    if kind == 'call-dest':
                        cs = F.CallSite(wb, wbi, thing)
                        v = F.Expr('call', cs.callee, [F.Expr.of_operand(wb, a, 20) for a in cs.args], cs)
                    else:
                        v = F.Expr.of_rvalue(wb, thing['r'], 20)
                    vs = v.strip()
                    mono = (vs.k == 'bin' and vs.a == 'Add' and fname in vs.b.show() and (vs.c.const_value() or 0) >= 0) or \
                           (vs.k == 'call' and re.search(r'::max$', vs.a) and any(fname in a.show() for a in vs.b))
                    if not mono:
                        raised = False
                        for c in F.dominating_conds(wb, wbi):
                            if c.kind == 'cmp' and ((c.op in ('Gt', 'Ge') and c.lhs.strip().show() == vs.show() and fname in c.rhs.show()) or
                                                    (c.op in ('Lt', 'Le') and c.rhs.strip().show() == vs.show() and fname in c.lhs.show())):
                                raised = True
                        if not raised:
                            problems.append('%s = %s in %s (line %s) is not raise-only' % (fname, vs.brief(60), wb.id.rsplit('::', 1)[-1], thing.get('ln')))
                # whole-value overwrite of the owner outside start-up (`*self = Self::new(..)`)
                short = adt.rsplit('::', 1)[-1]
                for wb in bodies:
                    if wb.root.startswith(startup):
                        continue
                    for wbi, wsi, ws in wb.stmts():
                        d = ws['d']
                        if len(d) == 2 and d[1] == '*' and re.fullmatch(r'&mut (persistent_state::)?%s' % re.escape(short), wb.local_ty(d[0]) or ''):
                            problems.append('%s is overwritten as a whole in %s (line %s): %s restarts from its constructor value' % (
                                short, wb.id.rsplit('::', 1)[-1], ws.get('ln'), fname))
                    for wbi, t in wb.terms():
                        d = t.get('d') if t['k'] == 'call' else None
                        if d and len(d) == 2 and d[1] == '*' and re.fullmatch(r'&mut (persistent_state::)?%s' % re.escape(short), wb.local_ty(d[0]) or ''):
                            problems.append('%s is overwritten as a whole in %s (line %s): %s restarts from its constructor value' % (
                                short, wb.id.rsplit('::', 1)[-1], t.get('ln'), fname))
            ctx.ob('HEADER-ID', 'header-id-source@%s' % b.id, not problems, b.where(st.get('ln')),
                   ('the snapshot header id is read from the transaction_counter mutex under its lock' if from_counter and not srcs else
                    'the snapshot header id is read from %s, all of whose writers are raise-only' % ', '.join(srcs)) if not problems else
                   ('the snapshot header id is read from %s, which can move backwards: %s — after a restart from that snapshot the '
                    'transaction counter moves backwards' % (', '.join(srcs) or e.brief(80), '; '.join(problems[:3]))), entry=b.root)
    ctx.floor('HEADER-ID', 1)

    # ------------------------------------------------------------------ 8. who may overwrite, rename or delete durable files
    # closed-world rule over every file-system writer in the module: a durable file (active log, rotated log, published
    # snapshot) is never opened truncating / created over / written in place, renamed only by rotate (log) and checkpoint
    # (temp -> snapshot), and deleted only by the two clean-up routines (never the active log) — everything else that is
    # created or removed is a temp file, the lock marker or the key file.
    WRITER = (r'OpenOptions::open$|fs::File::create$|fs::File::create_new$|^std::fs::(write|remove_file|rename|copy|hard_link|remove_dir_all)$|'
              r'fs::File::set_len$|^tokio::fs::(write|remove_file|rename|copy)')
    active_tpl_txt = ''.join(v for k, v in active_tpl) if active_tpl and all(k == 'lit' for k, v in active_tpl) else None

    def tags(bd, e):
        t = set()
        txt = e.show()
        if e.mentions_call(r'Path::with_extension$') is not None:
            t.add('tmp')
        if 'LOCK_FILE_NAME' in txt:
            t.add('lock')
        if 'HMAC_KEY_FILE_NAME' in txt or 'KEY_FILE' in txt:
            t.add('key')
        if e.mentions_call(r'::find_wal_files$') is not None:
            t.add('found-wal')
        if e.mentions_call(r'::find_snapshots$') is not None:
            t.add('found-snap')
        if e.mentions_call(r'::generate_snapshot_path$') is not None and 'tmp' not in t:
            t.add('snapshot')
        for x in e.walk():
            if x.k == 'field' and x.b == WW + '::path':
                t.add('walpath')
            if x.k == 'param' and bd.root.startswith(WW + '::new') and x.b in ('wal_path', 'path'):
                t.add('walpath')
        return t
    nfs = 0
    for b in units:
        for cs in b.calls(WRITER):
            nfs += 1
            name = cs.short()
            n = sum(1 for o in ctx.obls if o.key.startswith('fs:%s@%s' % (name, b.root)))
            key = 'fs:%s@%s#%d' % (name, b.root, n)
            if name == 'open':
                rcv = b.expr(cs.args[0])
                chain = rcv.show()
                # options built step by step (`let mut o = OpenOptions::new(); o.write(true); o.open(p)`): add every
                # mode call made on the same local
                roots = set(x.a for x in rcv.walk() if x.k in ('let', 'local') and isinstance(x.a, int))
                for oc in b.calls(r'OpenOptions::(write|append|truncate|create|create_new|read)$|OpenOptionsExt>::(mode|custom_flags)$'):
                    r2 = set(x.a for x in b.expr(oc.args[0]).walk() if x.k in ('let', 'local') and isinstance(x.a, int))
                    if roots & r2:
                        val = b.expr(oc.args[1]).const_value() if len(oc.args) > 1 else None
                        if val is not False:
                            chain += ' OpenOptions::%s(' % oc.short()
                pe = b.expr(cs.args[1])
                writes = re.search(r'OpenOptions::(write|create|create_new|truncate)\(', chain) is not None and 'OpenOptions::append(' not in chain
                appends = 'OpenOptions::append(' in chain
                tg = tags(b, pe)
                if not writes and not appends:
                    ctx.ob('FS-WRITERS', key, True, cs.where(), 'read-only open of %s' % pe.brief(60))
                elif appends and 'OpenOptions::truncate(' not in chain:
                    ctx.ob('FS-WRITERS', key, True, cs.where(), 'append-only open of %s' % pe.brief(60))
                else:
                    ok = bool(tg & {'tmp', 'lock', 'key'})
                    ctx.ob('FS-WRITERS', key, ok, cs.where(),
                           ('truncating / in-place open of a %s file' % '/'.join(sorted(tg))) if ok else
                           ('%s is opened for writing without append (%s): a durable file is overwritten in place — its acknowledged records are '
                            'gone after a crash or restart' % (pe.brief(60), '/'.join(sorted(tg)) or 'untagged path')), entry=b.root)
            elif name in ('create', 'create_new', 'write'):
                pe = b.expr(cs.args[0])
                tg = tags(b, pe)
                ok = bool(tg & {'tmp', 'lock', 'key'})
                ctx.ob('FS-WRITERS', key, ok, cs.where(),
                       ('%s of a %s file' % (name, '/'.join(sorted(tg)))) if ok else
                       ('%s(%s) replaces a file that is not a temp / lock / key file' % (name, pe.brief(60))), entry=b.root)
            elif name in ('rename', 'copy', 'hard_link'):
                src, dst = b.expr(cs.args[0]), b.expr(cs.args[1])
                ts = tags(b, src)
                ok = name == 'rename' and (('walpath' in ts and b.root == WW + '::rotate') or
                                           ('tmp' in ts and b.root.startswith(MGRT + '::checkpoint')))
                ctx.ob('FS-WRITERS', key, ok, cs.where(),
                       ('rename %s -> %s' % (src.brief(40), dst.brief(40))) if ok else
                       ('%s(%s, %s) in %s: only rotate (active log) and checkpoint (temp snapshot) may move durable files' % (
                           name, src.brief(40), dst.brief(40), b.root.rsplit('::', 1)[-1])), entry=b.root)
            elif name in ('remove_file', 'remove_dir_all', 'set_len'):
                pe = b.expr(cs.args[0])
                tg = tags(b, pe)
                ok = False
                why = 'deletes %s' % pe.brief(60)
                if name == 'remove_file' and 'lock' in tg:
                    ok = True
                    why = 'removes the lock marker'
                elif name == 'remove_file' and 'tmp' in tg:
                    ok = True
                    why = 'removes a temp file'
                elif name == 'remove_file' and 'found-snap' in tg and b.root.startswith(MGRT + '::cleanup_old_snapshots'):
                    ok = True
                    why = 'cleanup_old_snapshots removes a snapshot beyond the retention count'
                elif name == 'remove_file' and 'found-wal' in tg and b.root.startswith(MGRT + '::cleanup_old_wal_files'):
                    # never the active log: dominated by the false edge of `file_name == "state.wal"`
                    skip = False
                    for c in F.dominating_conds(b, cs.bb):
                        if c.kind == 'bool' and not c.truth and c.expr.k == 'call' and re.search(r'PartialEq.*>::eq$', c.expr.a) and \
                                c.expr.mentions_call(r'Path::file_name$') is not None:
                            for a in c.expr.b:
                                for x in a.walk():
                                    if x.k == 'call' and re.search(r'fmt::format$|hint::must_use$', x.a):
                                        tpl = L.string_template(prog, b, x)
                                        if tpl and all(k == 'lit' for k, v in tpl) and ''.join(v for k, v in tpl) == active_tpl_txt:
                                            skip = True
                        if c.kind == 'bool' and c.truth and c.expr.k == 'call' and re.search(r'PartialEq.*>::ne$', c.expr.a) and \
                                c.expr.mentions_call(r'Path::file_name$') is not None:
                            skip = True
                    ok = skip
                    why = ('cleanup_old_wal_files removes a covered log, never the active one (skipped by name %r)' % active_tpl_txt) if skip else \
                          'cleanup_old_wal_files can delete the ACTIVE log: the skip on its file name does not dominate the removal'
                ctx.ob('FS-WRITERS', key, ok, cs.where(), why if ok else (why + ' — a file that may hold the only copy of acknowledged records'), entry=b.root)
    ctx.floor('FS-WRITERS', 6)

    # ------------------------------------------------------------------ 9. replay understands everything the APIs log
    # For every record type a mutating API writes (discovered: TransactionType variants constructed outside the derived
    # serde code), a *verified* record of that type must, on every path through the replay loop body, change the state
    # map (insert / remove) or be counted as failed (or abort recovery with an error): a path that falls through to the
    # next record without either silently drops an acknowledged operation (e.g. a batch removal logged without a value).
    TT = 'persistent_state::TransactionType'
    variants = [v['name'] for v in prog.adt(TT)['variants']]
    written = set()
    for b in bodies:
        if b.derived or 'serde' in b.id or b.root.startswith(MGRT + '::replay_wal_file'):
            continue
        for r in b.aggregates():
            if r.get('adt') == TT and r.get('var'):
                written.add(r['var'])
    nrt = 0
    VERFN_ = L.wal_roles(prog)[1]
    replay_inl = [prog.inl(b_.id, keep=re.escape(VERFN_) + '$') for b_ in bodies if b_.root == MGRT + '::replay_wal_file' and b_.is_coroutine]
    if not replay_inl:
        replay_inl = [prog.inl(b_.id, keep=re.escape(VERFN_) + '$') for b_ in bodies if b_.id == MGRT + '::replay_wal_file']
    for b in replay_inl:
        for bi, t in b.terms():
            if t['k'] != 'switch':
                continue
            e = b.expr(t['d'])
            while e.k == 'let':
                e = e.c
            if e.k != 'disc' or not e.a.strip().show().endswith('.transaction_type'):
                continue
            loops = [(h, ns) for h, ns in L.natural_loops(b) if bi in ns]
            if not loops:
                continue
            h, ns = min(loops, key=lambda x: len(x[1]))
            passn = set()
            for cs in b.calls(r'HashMap::<.*>::(insert|remove)$|HashMap::(insert|remove)$|BTreeMap::<.*>::(insert|remove)$'):
                passn.add(cs.bb)
            for sbi, ssi, s in b.stmts():
                if any(isinstance(p, str) and p.endswith('RecoveryStats::entries_failed') for p in s['d'][1:]):
                    passn.add(sbi)
            covered = {}
            for n, (src, val, dst) in b.edges_of(bi):
                if val == 'otherwise':
                    continue
                vname = variants[int(val)] if int(val) < len(variants) else None
                if vname is None:
                    continue
                reach = b.reachable_tracking([n], passn)
                silent = h in reach
                covered[vname] = (not silent, n)
            for vname in sorted(written):
                nrt += 1
                if vname not in covered:
                    ctx.ob('REPLAY-TOTAL', 'replay-handles:%s' % vname, False, b.where(t.get('ln')),
                           'records of type %s are written by an API but the replay match has no arm for them' % vname, entry=b.root)
                    continue
                okv, n = covered[vname]
                ctx.ob('REPLAY-TOTAL', 'replay-handles:%s' % vname, okv, b.where(t.get('ln')),
                       ('every path of a verified %s record through the replay loop changes the state map or counts a failure' % vname) if okv else
                       ('a verified %s record can reach the next iteration without changing the state map and without being counted '
                        '(e.g. a record without a value): an acknowledged operation is silently dropped at restart' % vname), entry=b.root)
    # ... and nothing lets a verified record slip past the type match: from the true edge of the MAC check every path to the
    # next iteration changes the state map, counts a failure, or goes through the arm of a record type no API writes
    # (Checkpoint markers). A filter placed after verification ("already covered by the snapshot", "older than ..") drops
    # acknowledged operations: ids are allocated before a record is logged, so a snapshot id says nothing about what it holds.
    for b in replay_inl:
        for n, e in sorted(b.edge_nodes().items()):
            c = F.edge_cond(b, e)
            if not (c.kind == 'bool' and c.truth and c.expr.k == 'call' and c.expr.a == L.wal_roles(prog)[1]):
                continue
            loops = [(h, ns) for h, ns in L.natural_loops(b) if e[0] in ns]
            if not loops:
                continue
            h, ns = min(loops, key=lambda x: len(x[1]))
            passn = set()
            for cs in b.calls(r'HashMap::<.*>::(insert|remove)$|HashMap::(insert|remove)$|BTreeMap::<.*>::(insert|remove)$'):
                passn.add(cs.bb)
            for sbi, ssi, st in b.stmts():
                if any(isinstance(p_, str) and p_.endswith('RecoveryStats::entries_failed') for p_ in st['d'][1:]):
                    passn.add(sbi)
            # arms of record types that no API writes
            for sbi, t in b.terms():
                if t['k'] != 'switch':
                    continue
                de = b.expr(t['d'])
                while de.k == 'let':
                    de = de.c
                if de.k == 'disc' and de.a.strip().show().endswith('.transaction_type'):
                    for n2, (src, val, dst) in b.edges_of(sbi):
                        if val != 'otherwise' and int(val) < len(variants) and variants[int(val)] not in written:
                            passn.add(n2)
            reach = b.reachable_tracking([n], passn)
            silent = h in reach
            wit = None
            if silent:
                # the branch that lets the record through: the first switch edge on a skipping path that is not the type match
                for n3, e3 in sorted(b.edge_nodes().items()):
                    if n3 in reach and h in b.reachable_tracking([n3], passn):
                        c3 = F.edge_cond(b, e3)
                        if not (c3.kind == 'disc' and c3.expr.show().endswith('.transaction_type')):
                            wit = (b.line_of_block(e3[0]), c3.brief(90))
                            break
            ctx.ob('REPLAY-TOTAL', 'replay-applies-every-verified-record', not silent, b.where(wit[0] if wit else b.line_of_block(e[0])),
                   'from the true edge of the MAC check every path to the next record changes the state map or counts a failure' if not silent else
                   ('a record that passed the MAC check can be skipped without effect and without being counted (branch `%s`): an acknowledged '
                    'operation is dropped at restart' % (wit[1] if wit else '?')), entry=b.root)
    ctx.floor('REPLAY-TOTAL', 4)


def _runs_before_replay(prog, b):
    root = b.root
    callers = prog.callers_of(root)
    if not callers:
        return False
    for cid in callers:
        cb = prog.bodies[cid]
        mine = [cs for cs in cb.calls() if cs.callee == root]
        replay = [cs for cs in cb.calls(r'::recover_from_wal$|::replay_wal_file$')]
        if not replay:
            return False
        for m in mine:
            if not all(cb.dominates(m.bb, r.bb) and m.bb != r.bb for r in replay):
                return False
    return True
