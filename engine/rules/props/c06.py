"""C06 — acknowledged state survives a crash; recovery is a prefix (structural clauses)."""
import json
import re
import facts as F
import lib as L

EXPLANATION = (
    "Static decision of necessary structural conditions of C06 on MIR of src/persistent_state.rs: (1) LOG-BEFORE-APPLY — in "
    "every public mutating API the acquisition of the in-memory state write guard is dominated by the Ok edge of the log "
    "write; (2) ORDER — checkpoint: sync_all Ok -> rename(tmp, final) Ok -> deletion of covered logs / old snapshots; "
    "rotate: sync_all Ok -> rename Ok -> reopen; flush on the Always arm before write_entry returns Ok; (3) KEY-PERSIST — the "
    "key that authenticates on-disk records must not be fresh RNG output that never touches a file; (4) CANONICAL — the digest "
    "compared with the snapshot header is computed over bytes read from the file, not over a re-serialised HashMap; (5) "
    "REPLAY-ORDER — the file-name scheme (format templates of the active and rotated logs) agrees with the sort used for "
    "replay, and the newest snapshot is tried first; (6) COUNTER — writers of the transaction counter are +1 in the APIs and "
    "raise-only (or pre-replay) in recovery."
)
NOT_DECIDED = "torn writes, byte truncation of the last record, rotation collisions within one second, every concrete crash point"
ASSUMPTIONS = ["std::fs::rename is atomic on the target file system", "File::write_all hands bytes to the OS before returning"]

MGR = 'persistent_state::PersistentStateManager'
MGRT = 'persistent_state::PersistentStateManager::<T>'
WW = 'persistent_state::WalWriter'
FILE = 'src/persistent_state.rs'


def _bodies(prog):
    return list(prog.bodies.in_files([FILE]))


def run(ctx):
    prog = ctx.prog
    prog.adt(MGR)
    prog.adt(WW)
    bodies = _bodies(prog)
    for b in bodies:
        ctx.touch(b, len(b.calls()))

    # ------------------------------------------------------------------ 1. log before apply
    # public mutating APIs = pub `&self` methods of the manager whose body applies a change to the
    # in-memory map: takes the `state` write guard itself or calls a helper that does (helpers that
    # replay the log — they reach verify_wal_entry — are recovery, not mutation).
    logger = L.MustPassSummary(prog, lambda cs: cs.callee.endswith('WalWriter::write_entry'), depth=ctx.depth())

    def takes_state_write(bid, depth=3, _seen=None):
        _seen = _seen if _seen is not None else set()
        if bid in _seen or bid not in prog.bodies:
            return False
        _seen.add(bid)
        for i in prog.family(bid):
            bb = prog.bodies[i]
            if any(g.mode == 'write' and g.lock_field() == 'state' for g in L.guards(bb)):
                return True
            if depth > 0:
                for cs in bb.calls():
                    if cs.local and cs.callee.startswith(MGRT) and takes_state_write(cs.callee, depth - 1, _seen):
                        return True
        return False

    def is_replay(bid):
        return prog.reaches_call(bid, lambda cs: cs.callee.endswith('::verify_wal_entry'), depth=3)

    n_api = 0
    for rid in sorted(set(b.root for b in bodies if b.root.startswith(MGRT + '::'))):
        rootb = prog.bodies.get(rid)
        if rootb is None or not rootb.is_pub or rootb.argc < 1 or not rootb.local_ty(1).startswith('&'):
            continue
        body = prog.async_body(rid)
        applies = []
        for g in L.guards(body):
            if g.mode == 'write' and g.lock_field() == 'state':
                applies.append((g.acq.bb, g.acq.ln, 'state.write()'))
        for cs in body.calls():
            base = cs.callee[:-len('::{closure#0}')] if cs.callee.endswith('::{closure#0}') else cs.callee
            if cs.local and base.startswith(MGRT) and base != rid and not is_replay(base) and takes_state_write(base):
                if cs.callee.endswith('::{closure#0}') or not prog.bodies[base].is_async:
                    applies.append((cs.bb, cs.ln, base.rsplit('::', 1)[-1] + '()'))
        if not applies:
            continue
        n_api += 1
        logs = logger.sites(body)
        for i, (abb, aln, what) in enumerate(applies):
            key = 'apply@%s' % body.id if i == 0 else 'apply#%d@%s' % (i, body.id)
            ok = False
            why = 'no (transitive) call that writes the log record in this body'
            for cs in logs:
                te = F.try_edges(body, cs)
                if te and te[0] is not None and body.dominates(te[0], abb):
                    ok = True
                    why = 'in-memory apply %s (line %s) is dominated by the Ok edge of the log write (line %s)' % (what, aln, cs.ln)
                    break
                why = ('in-memory apply %s at line %s is not dominated by the Ok edge of the log write at line %s '
                       '(applied before / without a successful log write)' % (what, aln, cs.ln))
            ctx.ob('LOG-BEFORE-APPLY', key, ok, body.where(aln), why, entry=rid)
    ctx.floor('LOG-BEFORE-APPLY', 3)

    # ------------------------------------------------------------------ 2. ordering in checkpoint / rotate / write_entry
    for b in bodies:
        rn = b.calls(r'^std::fs::rename$')
        for cs in rn:
            key = 'rename@%s' % b.id
            syncs = [c for c in b.calls(r'fs::File::sync_all$|fs::File::sync_data$')]
            oks = False
            for s in syncs:
                te = F.try_edges(b, s)
                if te and te[0] is not None and b.dominates(te[0], cs.bb):
                    oks = True
            ctx.ob('SYNC-BEFORE-RENAME', key, oks, cs.where(),
                   'rename is%s dominated by the Ok edge of a sync_all on the file being published' % ('' if oks else ' NOT'), entry=b.root)
            # what must come after the rename's Ok edge: deletions (checkpoint) / reopen (rotate)
            te = F.try_edges(b, cs)
            after = [c for c in b.calls() if c.local and prog.reaches_call(c.callee, lambda x: x.callee.endswith('fs::remove_file'), depth=3)]
            after += b.calls(r'fs::remove_file$')
            if b.id.startswith(WW):
                after += b.calls(r'OpenOptions::open$')
            for c in after:
                okd = te is not None and te[0] is not None and b.dominates(te[0], c.bb)
                ctx.ob('RENAME-BEFORE-DELETE', 'after-rename:%s:%s' % (b.id, c.short()), okd, c.where(),
                       '%s is%s dominated by the Ok edge of the rename' % (c.short(), '' if okd else ' NOT'), entry=b.root)
            # the renamed source is a temp path / the active path, never written in place
    ctx.floor('SYNC-BEFORE-RENAME', 2)
    ctx.floor('RENAME-BEFORE-DELETE', 3)
    # checkpoint writes only to a path derived from with_extension("tmp")
    for b in bodies:
        if not b.root.startswith(MGRT + '::checkpoint'):
            continue
        for cs in b.calls(r'OpenOptions::open$'):
            p = b.expr(cs.args[1])
            tmp = p.mentions_call(r'Path::with_extension$')
            okp = tmp is not None
            ctx.ob('TEMP-THEN-RENAME', 'open@%s' % b.id, okp, cs.where(),
                   'the snapshot is written to %s' % ('a with_extension(..) temp path' if okp else 'a path that is not the temp path: ' + p.brief()))
            for rn in b.calls(r'^std::fs::rename$'):
                src = b.expr(rn.args[0]).strip().show()
                same = src == p.strip().show()
                ctx.ob('TEMP-THEN-RENAME', 'rename-src@%s' % b.id, same, rn.where(),
                       'rename source %s the file just written and synced' % ('is' if same else 'is NOT'))
    ctx.floor('TEMP-THEN-RENAME', 2)
    we = prog.body(WW + '::write_entry')
    # write_entry writes the size prefix then the record, both with `?`
    wa = we.calls(r'io::Write>::write_all$|io::Write::write_all$')
    okw = len(wa) >= 2 and all(F.try_edges(we, c) is not None for c in wa)
    ctx.ob('WRITES-CHECKED', 'write_entry:writes-checked', okw, we.where(),
           '%d write_all calls, each propagating its error with `?`' % len(wa))

    # ------------------------------------------------------------------ 3. key persistence
    for b in bodies:
        for bi, si, s in b.stmts():
            r = s['r']
            if r['k'] == 'agg' and r.get('adt') == MGR:
                op = L.agg_field_operand(s, 'hmac_key')
                if op is None:
                    ctx.anchor_fail('KEY-PERSIST', MGR + '.hmac_key')
                    continue
                e = b.expr(op)
                # buffers the key is built from (byte containers in the backward slice of the field)
                bufs = set(l for l in b.backward_locals([op['p'][0]] if 'p' in op else [])
                           if re.search(r'Vec<u8>|\[u8; \d+\]', b.local_ty(l)))
                rng = []
                filed = []
                for cs in b.calls():
                    al = [a['p'][0] for a in cs.args if 'p' in a]
                    if not (b.backward_locals(al) & bufs):
                        continue
                    if re.search(r'(RngCore>::fill_bytes|RngCore::fill_bytes|Rng>::fill|Rng::fill|RngCore>::try_fill_bytes|getrandom)', cs.callee + cs.declared):
                        rng.append(cs)
                    if re.search(r'(Read>::read_exact|Read::read_exact|fs::read|Read>::read_to_end|fs::write|Write>::write_all|Write::write_all)', cs.callee + cs.declared):
                        filed.append(cs)
                viol = bool(rng) and not filed
                fromfile = e.mentions_call(r'fs::read|read_exact|read_to_end|load_.*key|derive')
                ctx.ob('KEY-PERSIST', 'hmac_key@%s' % b.id, not viol or fromfile is not None, b.where(s.get('ln')),
                       ('the record-authentication key is filled by %s and never read from or written to a file: records written by an '
                        'earlier process can never verify after a restart' % rng[0].short()) if viol else
                       'the record-authentication key does not come from per-process randomness only (%s)' % e.brief(160), entry=b.root)
    ctx.floor('KEY-PERSIST', 1)

    # ------------------------------------------------------------------ 4. canonical checksum input
    n_cmp = 0
    for b in bodies:
        for cs in b.calls(r'PartialEq.*>::(ne|eq)$'):
            a0, a1 = b.expr(cs.args[0]), b.expr(cs.args[1])
            hdr = None
            for side, other in ((a0, a1), (a1, a0)):
                if side.strip().show().endswith('.checksum'):
                    hdr, digest = side, other
            if hdr is None:
                continue
            n_cmp += 1
            # the digest: finalize(hasher) ; find update(hasher, data)
            hashers = set(x.a for x in digest.walk() if x.k == 'local')
            fin = digest.mentions_call(r'Digest>::finalize$|Digest::finalize$|FixedOutput')
            data_exprs = []
            for u in b.calls(r'Digest>::update$|Digest::update$|Update>::update$'):
                h = b.expr(u.args[0])
                if any(x.k == 'local' and x.a in hashers for x in h.walk()) or True:
                    data_exprs.append((u, b.expr(u.args[1])))
            reser = [(u, d) for u, d in data_exprs if d.mentions_call(r'postcard::to_(stdvec|allocvec|vec)$|serde_json::to_vec|bincode::serialize')]
            okc = bool(data_exprs) and not reser
            ctx.ob('CANONICAL', 'checksum@%s' % b.id, okc, cs.where(),
                   ('the digest compared with header.checksum is computed over a re-serialisation (%s) of the decoded map: HashMap '
                    'iteration order is not canonical, so a valid snapshot fails its own checksum' % reser[0][1].brief(120)) if reser else
                   'the digest compared with header.checksum is computed over %s' % (data_exprs[0][1].brief(120) if data_exprs else 'nothing found'),
                   entry=b.root)
    ctx.floor('CANONICAL', 2)

    # ------------------------------------------------------------------ 5. replay order vs naming; newest snapshot first
    active_tpl = rotated_tpl = None
    for b in bodies:
        for cs in b.calls(r'WalWriter::new$'):
            p = b.expr(cs.args[0])
            j = p.mentions_call(r'Path::join$|PathBuf::join$')
            if j is not None and len(j.b) > 1:
                active_tpl = L.string_template(prog, b, j.b[1])
    rot = prog.body(WW + '::rotate')
    for cs in rot.calls(r'^std::fs::rename$'):
        p = rot.expr(cs.args[1])
        j = p.mentions_call(r'Path::with_file_name$|Path::join$')
        if j is not None and len(j.b) > 1:
            rotated_tpl = L.string_template(prog, rot, j.b[1])
    # sort direction used by find_wal_files
    fw = None
    for b in bodies:
        if b.id.startswith(MGRT + '::find_wal_files::{closure'):
            fw = b
    asc = None
    if fw is not None:
        for cs in fw.calls(r'::cmp$'):
            a0 = fw.expr(cs.args[0]).show()
            a1 = fw.expr(cs.args[1]).show()
            p1 = fw.local_name(1 + 1) if fw.argc >= 2 else None
            # closure params: _2 = a, _3 = b
            na = fw.local_name(2)
            nb = fw.local_name(3)
            if na and nb:
                asc = (na in a0 and nb in a1)
    if active_tpl is None or rotated_tpl is None or asc is None:
        ctx.ob('REPLAY-ORDER', 'wal-name-scheme', False, FILE,
               'cannot determine the log file-name scheme / sort direction (active=%s rotated=%s ascending=%s): fail closed' % (active_tpl, rotated_tpl, asc))
    else:
        a0 = active_tpl[0][1] if active_tpl[0][0] == 'lit' else ''
        r0 = rotated_tpl[0][1] if rotated_tpl[0][0] == 'lit' else ''
        # the active log holds the newest records: it must be replayed last
        decided = bool(a0) and bool(r0) and not a0.startswith(r0) and not r0.startswith(a0)
        if asc:
            good = decided and a0 > r0
        else:
            good = decided and a0 < r0
        ctx.ob('REPLAY-ORDER', 'wal-name-scheme', good, rot.where(),
               'logs are replayed in %s file-name order; active log is named %r..., rotated logs %r...: the active (newest) log is replayed %s' % (
                   'ascending' if asc else 'descending', a0, r0, 'last' if good else 'BEFORE the rotated (older) logs, so stale values win'))
    # newest snapshot first: find_snapshots sorts descending and recover_from_snapshot must not reverse it
    fs_desc = None
    for b in bodies:
        if b.id.startswith(MGRT + '::find_snapshots::{closure'):
            for cs in b.calls(r'::cmp$'):
                na, nb = b.local_name(2), b.local_name(3)
                a0 = b.expr(cs.args[0]).show()
                if na and nb:
                    fs_desc = (nb in a0)
    for b in bodies:
        if not b.root.startswith(MGRT + '::recover_from_snapshot'):
            continue
        for cs in b.calls(r'::load_snapshot$'):
            # iteration source feeding load_snapshot
            it = None
            for c2 in b.calls(r'Iterator>::next$|Iterator::next$'):
                it = b.expr(c2.args[0])
            rev = it is not None and it.mentions_call(r'Iterator>::rev$|Iterator::rev$|DoubleEndedIterator') is not None
            newest_first = (fs_desc is True and not rev) or (fs_desc is False and rev)
            ctx.ob('REPLAY-ORDER', 'snapshot-order@%s' % b.id, newest_first, cs.where(),
                   'find_snapshots sorts %s and recovery iterates it %s: the %s snapshot is tried first' % (
                       'newest-first' if fs_desc else 'oldest-first', 'reversed' if rev else 'in order',
                       'newest' if newest_first else 'OLDEST (logs covered by newer snapshots are already deleted)'), entry=b.root)
    ctx.floor('REPLAY-ORDER', 2)

    # ------------------------------------------------------------------ 6. counter writers
    ncw = 0
    for b in bodies:
        gs = [g for g in L.guards(b) if g.lock_field() == 'transaction_counter']
        for g in gs:
            # assignments through the guard: (*deref_mut(&mut g)) = v
            for bi, si, s in b.stmts():
                d = s['d']
                if len(d) == 2 and d[1] == '*':
                    tgt = F.Expr.of_local(b, d[0], 20)
                    if not any(x.k in ('local', 'let') and x.a == g.local for x in tgt.walk()):
                        continue
                    ncw += 1
                    v = F.Expr.of_rvalue(b, s['r'], 20)
                    vs = v.strip()
                    key = 'counter-write@%s#%d' % (b.id, sum(1 for o in ctx.obls if o.key.startswith('counter-write@%s' % b.id)))
                    inc = (vs.k == 'bin' and vs.a == 'Add' and vs.c.const_value() == 1)
                    if inc:
                        ctx.ob('COUNTER', key, True, b.where(s.get('ln')), 'counter += 1')
                        continue
                    conds = F.dominating_conds(b, bi)
                    raised = False
                    for c in conds:
                        if c.kind == 'cmp':
                            l, r = c.lhs.strip().show(), c.rhs.strip().show()
                            if c.op == 'Gt' and l == vs.show():
                                raised = True
                            if c.op == 'Lt' and r == vs.show():
                                raised = True
                    if raised:
                        ctx.ob('COUNTER', key, True, b.where(s.get('ln')), 'counter = %s only under `%s > counter`' % (vs.brief(), vs.brief()))
                        continue
                    # unguarded store: allowed only in a body that runs before any replay (snapshot load)
                    pre = _runs_before_replay(prog, b)
                    ctx.ob('COUNTER', key, pre, b.where(s.get('ln')),
                           'counter = %s unguarded; %s' % (vs.brief(), 'this body is only called from `recover` before the log replay' if pre else
                                                           'and not provably before the replay: the counter can move backwards'))
    ctx.floor('COUNTER', 5)


def _runs_before_replay(prog, b):
    root = b.root
    callers = prog.callers_of(root)
    if not callers:
        return False
    for cid in callers:
        cb = prog.bodies[cid]
        mine = [cs for cs in cb.calls() if cs.callee == root]
        replay = [cs for cs in cb.calls(r'::recover_from_wal$|::replay_wal_file$')]
        if not replay:
            return False
        for m in mine:
            if not all(cb.dominates(m.bb, r.bb) and m.bb != r.bb for r in replay):
                return False
    return True
