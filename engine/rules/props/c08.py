"""C08 — signatures verify only for the exact message and key that produced them (structural clauses, release cfg)."""
import json
import re
import facts as F
import lib as L

CONFIGS = ['dbg', 'rel']
PRIMARY = 'rel'

EXPLANATION = (
    "Static decision of structural clauses of C08 on MIR extracted with cfg(debug_assertions) off for saorsa-core (the build "
    "that ships): (1) REAL-PRIMITIVE — ml_dsa_sign / ml_dsa_verify call MlDsaOperations::{sign, verify} with (key, message[, "
    "signature]) and the keyless debug shim does not exist in that configuration; (2) KEYPAIR — bytes handed to "
    "MlDsaSecretKey/PublicKey::from_bytes never derive from a KDF / hash / RNG output buffer (a key pair must come from one "
    "keygen call or from imported bytes); generate() takes both halves from one keygen call; (3) VERIFY-GATE — in every named "
    "verify entry point each accepting return is the primitive's verdict (through error plumbing only) or is dominated by its "
    "true verdict, the primitive's message argument derives from the caller's message / the record, plus the extra gates "
    "(recomputed node id, signature length; pinned key lookup and validity window; checksum before signature); (4) SIBLINGS — "
    "every impl of WriteAuth::verify hands `record` to a verification primitive and accepts only under its verdict; (5) COVER — "
    "the address-bound id and its signed message read ip, key, salt and timestamp."
    ' SignatureVerifier: every writer of the pinned-key table also updates any derived state (parsed-key cache, memo) that the verification path reads — otherwise a replaced key keeps verifying.'
)
NOT_DECIDED = "bit-flip behaviour of ML-DSA itself (trusted library); base64 / hex decoding; skademlia, sibling-broadcast and MLS verifiers (outside the property's named scope; recorded only)"
ASSUMPTIONS = ["ant-quic / saorsa-pqc ML-DSA-65 is a correct signature scheme", "cfg(debug_assertions)=false facts describe the release build"]

QC = 'quantum_crypto::ant_quic_integration::'
PRIM = re.compile(r'(::ml_dsa_verify$|MlDsaOperations>::verify$|MlDsaOperations::verify$)')
DELEG = re.compile(r'(auth::WriteAuth::verify$|WriteAuth>::verify$|auth::MlsProofVerifier::verify$|MlsProofVerifier>::verify$)')
KDF = re.compile(r'(Kdf>::derive$|Kdf::derive$|Hkdf.*::(derive|expand|extract)|blake3::hash$|blake3::Hasher::finalize|Digest>::(finalize|digest)|'
                 r'RngCore>::fill_bytes|RngCore::fill_bytes|Rng>::fill$|rand::random$|derive_key$|Argon2.*::hash_password_into$)')
PLUMB = re.compile(r'(Result::<.*>::(map_err|unwrap_or|unwrap_or_default|unwrap_or_else|ok|map)$|Option::<.*>::(unwrap_or|unwrap_or_default)$|'
                   r'Try>::branch$|Try::branch$|FromResidual.*::from_residual$|Into<.*>>::into$|From<.*>>::from$)')


def closure_prims(b, c, extra=None):
    """primitive calls inside the closure(s) handed to an iterator predicate call c (`keys.iter().any(|k| verify(k, rec, sig))`)"""
    out = []
    prog = b.prog
    for a in c.args[1:]:
        for x in b.expr(a).walk():
            if x.k == 'agg' and x.d == 'closure' and x.a in prog.bodies:
                for cid in prog.family(x.a):
                    cb = prog.bodies[cid]
                    for cc in cb.calls():
                        if PRIM.search(cc.callee) or (extra is not None and (extra.search(cc.callee) or extra.search(cc.declared))):
                            out.append((cb, cc))
    return out


def prim_calls(b, extra=None):
    out = []
    for c in b.calls():
        if PRIM.search(c.callee) or (extra is not None and (extra.search(c.callee) or extra.search(c.declared))):
            out.append(c)
        elif re.search(r'iter::Iterator::(any|all|find|position)$', c.declared) and closure_prims(b, c, extra):
            # the predicate's verdict is the primitive's verdict for some / every key: the call stands for the primitive
            out.append(c)
    return out


def accept_analysis(ctx, prog, b, name, prims, returns_unit=False):
    """every accepting return of verify body b is the primitive's verdict or gated by it"""
    if not prims:
        ctx.ob('VERIFY-GATE', '%s:primitive' % name, False, b.where(), '%s calls no signature-verification primitive' % name)
        return
    pdest = set(c.dest[0] for c in prims if c.dest)
    n = 0
    # return sites: definitions of _0; a `_0 = move ret` of a local assigned in several places
    # (async_trait's `__ret`, `let verdict = if .. {..} else {..}`) is replaced by those assignments
    sites = []
    work = [0]
    seenl = set()
    while work:
        l = work.pop()
        if l in seenl:
            continue
        seenl.add(l)
        for d in b.defs().get(l, []):
            if d[0] == 's' and d[3]['r']['k'] == 'use' and 'p' in d[3]['r']['o'] and len(d[3]['r']['o']['p']) == 1:
                src = d[3]['r']['o']['p'][0]
                if len(b.defs().get(src, [])) >= 2 and src > b.argc:
                    work.append(src)
                    continue
            sites.append(d)
    for d in sites:
        kind, bb, si, th = d
        verdict = None
        desc = ''
        if kind == 's':
            r = th['r']
            if r['k'] == 'agg' and r.get('var') == 'Err':
                continue
            if r['k'] == 'agg' and r.get('var') == 'Ok':
                verdict = r['ops'][0]
                desc = 'Ok(..)'
            elif r['k'] == 'use':
                verdict = r['o']
                sdef = b.single_def(verdict['p'][0]) if 'p' in verdict and len(verdict['p']) == 1 else None
                if sdef is not None and sdef[0] == 's' and sdef[3]['r']['k'] == 'agg':
                    rr = sdef[3]['r']
                    if rr.get('var') == 'Err':
                        continue
                    if rr.get('var') == 'Ok':
                        verdict = rr['ops'][0]
                desc = 'value'
            else:
                verdict = None
        else:
            cs = F.CallSite(b, bb, th)
            if 'from_residual' in cs.callee:
                continue
            # returning the result of a call directly: map_err(primitive(..)) etc.
            verdict = {'p': [0]}
            desc = cs.short() + '(..)'
        if _infeasible(b, bb):
            continue
        n += 1
        key = '%s:return#%d' % (name, n)
        ln = th.get('ln')
        # constant verdicts
        cval = None
        if verdict is not None and 'v' in verdict and verdict.get('ty') == 'bool':
            cval = verdict['v'] != '0'
        if verdict is not None and verdict.get('c') == '()' or (verdict is not None and verdict.get('ty') == '()'):
            cval = True
        if verdict is not None and 'p' in verdict and len(verdict['p']) == 1 and verdict['p'][0] != 0:
            e = b.expr(verdict)
            cv = e.const_value()
            if isinstance(cv, bool):
                cval = cv
            if b.local_ty(verdict['p'][0]) == '()':
                cval = True
        if cval is False:
            continue
        if cval is True:
            gated = False
            for cd in F.dominating_conds(b, bb):
                if cd.kind == 'bool' and cd.truth and any(x.k == 'call' and x.c is not None and x.c.dest and x.c.dest[0] in pdest for x in cd.expr.walk()):
                    gated = True
                if cd.kind == 'int' and cd.value == 1 and any(x.k == 'call' and x.c is not None and x.c.dest and x.c.dest[0] in pdest for x in cd.expr.walk()):
                    gated = True
            conj = _conjunction_over_delegates(b, bb, prims) if not gated else False
            ctx.ob('VERIFY-GATE', key, gated or conj, b.where(ln),
                   '%s: accepting return (%s) %s' % (name, desc, 'is dominated by the true verdict of the primitive' if gated else
                                                      ('closes a loop over delegates in which any false verdict rejects' if conj else
                                                       'is NOT dependent on any verification primitive: the signature / message is never consulted on this path')))
            continue
        # non-constant verdict: must derive from the primitive's result through plumbing only
        src = [verdict['p'][0]] if verdict is not None and 'p' in verdict else []
        sl = _plumb_slice(b, src)
        ok = bool(sl & pdest)
        ctx.ob('VERIFY-GATE', key, ok, b.where(ln),
               '%s: returned verdict %s the primitive\'s result (through error plumbing only)' % (name, 'is' if ok else 'does NOT derive from'))
    if n == 0:
        ctx.ob('VERIFY-GATE', '%s:returns' % name, False, b.where(), 'no return found in %s' % name)


def _infeasible(b, bb):
    """async_trait emits `if let Some(__ret) = None::<T> { return __ret }` as a type hint: a branch on
    the discriminant of a freshly built constant variant that can never match"""
    for cd in F.dominating_conds(b, bb, expand=False):
        if cd.kind == 'disc':
            e = cd.expr.strip()
            if e.k == 'agg' and isinstance(e.a, str) and e.a.endswith('::None') and cd.variant_is(1):
                return True
    return False


def _plumb_slice(b, start):
    """locals reachable backwards through moves and Result/Option plumbing calls only"""
    seen = set()
    q = list(start)
    defs = b.defs()
    pd = b.partial_defs()
    while q and len(seen) < 300:
        x = q.pop()
        if x in seen:
            continue
        seen.add(x)
        for d in defs.get(x, []) + pd.get(x, []):
            if d[0] == 's':
                r = d[3]['r']
                if r['k'] in ('use', 'ref', 'cast'):
                    for o in F._rvalue_operands(r):
                        if 'p' in o:
                            q.append(o['p'][0])
                elif r['k'] == 'agg' and r.get('var') in ('Ok', 'Some'):
                    for o in r['ops']:
                        if 'p' in o:
                            q.append(o['p'][0])
            else:
                cs = F.CallSite(b, d[1], d[3])
                if PLUMB.search(cs.callee) or F.TRANSPARENT.match(cs.callee) or cs.declared.endswith('Future::poll') or cs.callee.endswith('IntoFuture>::into_future'):
                    for a in cs.args[:1]:
                        if 'p' in a:
                            q.append(a['p'][0])
    return seen


def _conjunction_over_delegates(b, bb, prims):
    """`for a in auths { if !a.verify(..)? { return Ok(false) } } Ok(true)`"""
    for h, nodes in L.source_loops(b):
        if not any(p.bb in nodes for p in prims):
            continue
        if bb in nodes:
            continue
        # every exit of the loop that reaches bb is iterator exhaustion
        good = True
        for (a, x) in L.loop_exits(b, nodes):
            if bb in b.reachable_from([x]):
                edges = b.edge_nodes()
                c = F.edge_cond(b, edges[x]) if x in edges else (F.edge_cond(b, edges[a]) if a in edges else None)
                if not (c is not None and c.kind == 'disc' and c.variant_is(0) and L.mentions_next(c.expr) is not None):
                    good = False
        return good
    return False


def _digest_flow(b, e):
    """does the expression compare against a value whose backward slice contains a digest finalisation?"""
    for l in set(x.a for x in e.walk() if x.k in ('let', 'local') and isinstance(x.a, int)):
        sl = b.backward_locals([l], limit=1500)
        if any(c.dest and c.dest[0] in sl for c in b.calls(r'Digest>::finalize$|Digest::finalize$|Hasher::finalize$|::finalize$|Digest>::digest$')):
            return True
    return False


def run(ctx):
    rel = ctx.progs['rel']
    dbg = ctx.progs['dbg']
    prog = rel
    ctx.ob('REAL-PRIMITIVE', 'facts-are-release-cfg', rel.meta.get('debug_assertions') == 0 and dbg.meta.get('debug_assertions') == 1, '-',
           'facts extracted with debug_assertions=%s (release configuration) and %s (debug)' % (rel.meta.get('debug_assertions'), dbg.meta.get('debug_assertions')))
    # ---- 1. real primitives in the shipped configuration
    for fn, op, nargs in (('ml_dsa_sign', 'sign', 2), ('ml_dsa_verify', 'verify', 3)):
        b = prog.body(QC + fn)
        ctx.touch(b, len(b.calls()))
        cs = [c for c in b.calls() if re.search(r'MlDsaOperations>::%s$' % op, c.callee)]
        ok = False
        detail = 'no MlDsaOperations::%s call' % op
        if cs:
            params = [b.expr(a).strip() for a in cs[0].args[1:]]
            ok = len(params) == nargs and all(p.k == 'param' for p in params) and [p.a for p in params] == list(range(1, nargs + 1))
            detail = 'MlDsaOperations::%s(%s)' % (op, ', '.join(p.show() for p in params))
        if fn == 'ml_dsa_verify':
            accept_analysis(ctx, prog, b, 'ml_dsa_verify(release)', cs)
        shim = [c for c in b.calls() if re.search(r'lookup_debug_public|blake3|Hasher', c.callee)]
        ctx.ob('REAL-PRIMITIVE', fn, ok and not shim, b.where(), '%s in the release configuration = %s; digest shim calls: %d' % (fn, detail, len(shim)))
    ctx.ob('REAL-PRIMITIVE', 'no-debug-registry', not prog.has_body(QC + 'lookup_debug_public'), '-',
           'the debug key registry lookup does not exist in the release configuration: %s' % (not prog.has_body(QC + 'lookup_debug_public')))
    ctx.floor('REAL-PRIMITIVE', 4)

    # ---- 2. key-pair provenance
    n = 0
    for b in prog.bodies.containing('from_bytes'):
        if b.derived:
            continue
        for c in b.calls():
            m = re.search(r'(MlDsaSecretKey|MlDsaPublicKey)::from_bytes$', c.callee)
            if not m or not c.args or 'p' not in c.args[0]:
                continue
            n += 1
            ctx.touch(b)
            sl = b.backward_locals([c.args[0]['p'][0]], limit=1500)
            srcs = []
            for k in b.calls():
                if not (KDF.search(k.callee) or KDF.search(k.declared)):
                    continue
                hit = bool(k.dest and k.dest[0] in sl)
                for a in k.args:
                    if 'p' in a and len(a['p']) == 1 and b.local_ty(a['p'][0]).startswith('&mut'):
                        mb = b.mut_base(a['p'][0])
                        if mb is not None and mb in sl:
                            hit = True
                if hit:
                    srcs.append(k)
            idx = sum(1 for o in ctx.obls if o.key.startswith('keybytes:%s:%s' % (b.root, m.group(1))))
            ctx.ob('KEYPAIR', 'keybytes:%s:%s#%d' % (b.root, m.group(1), idx), not srcs, c.where(),
                   ('%s::from_bytes in %s is fed from the output buffer of %s: public and secret halves cut out of raw KDF / hash / RNG output are not a key pair — '
                    'no signature made with such an identity verifies under its public key in the release build' % (m.group(1), b.root.rsplit('::', 1)[-1], srcs[0].short())) if srcs else
                   '%s::from_bytes in %s takes caller-supplied / stored key bytes' % (m.group(1), b.root.rsplit('::', 1)[-1]), entry=b.root)
    ctx.floor('KEYPAIR', 6)
    gen = prog.inl('identity::node_identity::NodeIdentity::generate', keep=r'::generate_ml_dsa_keypair$|generate_keypair$|register_debug')
    kg = [c for c in gen.calls(r'::generate_ml_dsa_keypair$|MlDsaOperations>::generate_keypair$')]
    okg = False
    for bi, si, s in gen.stmts():
        r = s['r']
        if r['k'] == 'agg' and r.get('adt', '').endswith('NodeIdentity') and kg:
            fm = dict(zip(r['fields'], r['ops']))
            sls = [gen.backward_locals([fm[f]['p'][0]], limit=800) for f in ('secret_key', 'public_key') if f in fm and 'p' in fm[f]]
            okg = len(sls) == 2 and all(kg[0].dest[0] in sl for sl in sls) and len(kg) == 1
    ctx.ob('KEYPAIR', 'generate:one-keygen', okg, gen.where(), 'NodeIdentity::generate takes both key halves from one keygen call: %s' % okg)

    # ---- 3. verify entry points
    named = [
        ('identity::node_identity::NodeIdentity::verify', 'NodeIdentity::verify'),
        ('identity::secure_node_identity::SecureNodeIdentity::verify', 'SecureNodeIdentity::verify'),
        ('security::GenericIpNodeID::<A>::verify', 'GenericIpNodeID::verify'),
        ('peer_record::PeerDHTRecord::verify_signature', 'PeerDHTRecord::verify_signature'),
        ('upgrade::verifier::SignatureVerifier::verify_signature', 'SignatureVerifier::verify_signature'),
    ]
    KEEP_PRIM = r'::(ml_dsa_verify|ml_dsa_sign)$|MlDsaOperations>::(sign|verify)$'
    for fid, name in named:
        b = prog.inl(fid, keep=KEEP_PRIM)
        ctx.touch(b, len(b.calls()))
        ps = prim_calls(b)
        accept_analysis(ctx, prog, b, name, ps)
        for c in ps:
            msg = c.args[1] if len(c.args) > 2 and PRIM.search(c.callee) and c.callee.endswith('ml_dsa_verify') else (c.args[2] if len(c.args) > 3 else None)
            if msg is not None and 'p' in msg:
                sl = b.backward_locals([msg['p'][0]], limit=1500)
                from_input = any(1 <= l <= b.argc for l in sl)
                ctx.ob('VERIFY-GATE', '%s:message' % name, from_input, c.where(), '%s: the verified message derives from the function\'s inputs (message / self): %s' % (name, from_input))
    # extra gates
    gv = prog.inl('security::GenericIpNodeID::<A>::verify', keep=KEEP_PRIM)
    succ_conds = []
    for c in prim_calls(gv):
        succ_conds = F.dominating_conds(gv, c.bb)
    idg = any(cd.kind == 'bool' and ((not cd.truth and L.calls_decl_expr(cd.expr, 'cmp::PartialEq::ne')) or (cd.truth and L.calls_decl_expr(cd.expr, 'cmp::PartialEq::eq')))
              and 'node_id' in cd.expr.show() and (cd.expr.mentions_call(r'::compute_node_id$') is not None or
                                                   cd.expr.mentions_call(r'Digest>::finalize$|Digest::finalize$|blake3::Hasher::finalize$|::finalize$') is not None or
                                                   _digest_flow(gv, cd.expr)) for cd in succ_conds)
    lng = any(L.cmp_is(cd, L.has('len(', 'signature'), 'Eq', lambda e: True) for cd in succ_conds)
    ctx.ob('VERIFY-GATE', 'GenericIpNodeID::verify:id-recomputed', idg, gv.where(), 'the signature check runs only if the recomputed node id equals the claimed one: %s' % idg)
    ctx.ob('VERIFY-GATE', 'GenericIpNodeID::verify:signature-length', lng, gv.where(), 'the signature check runs only for signatures of the exact length: %s' % lng)
    sv = prog.inl('upgrade::verifier::SignatureVerifier::verify_signature', keep=KEEP_PRIM)
    conds = []
    for c in prim_calls(sv):
        conds = F.dominating_conds(sv, c.bb)
    pinned = any(cd.kind == 'disc' and cd.variant_is(0) and 'HashMap' in cd.expr.show() and 'key_id' in cd.expr.show() for cd in conds) or \
        any(cd.kind == 'disc' and cd.expr.mentions_call(r'HashMap::<.*>::get$') is not None for cd in conds)
    valid = any(cd.kind == 'bool' and cd.truth and cd.expr.mentions_call(r'::is_valid$') is not None for cd in conds)
    keyflow = False
    for c in prim_calls(sv):
        sl = sv.backward_locals([c.args[0]['p'][0]], limit=1500) if 'p' in c.args[0] else set()
        keyflow = any(k.dest and k.dest[0] in sl for k in sv.calls(r'HashMap::<.*>::get$'))
    ctx.ob('VERIFY-GATE', 'SignatureVerifier::verify_signature:pinned-valid-key', pinned and valid and keyflow, sv.where(),
           'verification uses the pinned key looked up by key_id (%s / flows into the primitive: %s) and only while is_valid() (%s)' % (pinned, keyflow, valid))
    # one source of truth for the pinned key: every field of SignatureVerifier read on the verification path besides the
    # pinned-key table itself is derived state (a cache of parsed keys, a memo of verdicts); whoever replaces a pinned key
    # must update it too, otherwise a replaced key keeps verifying and the current one is refused
    SV = 'upgrade::verifier::SignatureVerifier'
    table = None
    for fld in prog.adt_fields(SV):
        if 'PinnedKey' in (prog.field_ty(SV, fld) or ''):
            table = fld
    if table is None:
        ctx.anchor_fail('VERIFY-GATE', SV + '.<pinned key table>')
    else:
        read = L.fields_read(prog, sv, SV, depth=3)
        derived = sorted(f for f in read if f != table)

        def touches(fld, mut):
            out = set()
            for wb, bi, kind, th in L.field_writes(prog, SV, fld):
                if kind in ('assign', 'mut-borrow', 'call-dest') and not wb.root.endswith('::new'):
                    out.add(wb.root)
            if not mut:
                return out
            # interior mutability: lock().insert / write().clear ... on the field
            tag = '.%s::%s' % (SV, fld)
            for wb in prog.bodies.containing(json.dumps(tag)):
                for g in L.guards(wb):
                    if g.mode in ('write', 'lock') and g.lock_field() == fld and not wb.root.endswith('::new'):
                        out.add(wb.root)
                for cs2 in wb.calls(r'RwLock::<.*>::write$|Mutex::<.*>::lock$|RwLock<.*>>::write$|Mutex<.*>>::lock$|lock_api::.*::(write|lock)$'):
                    if cs2.args and wb.expr(cs2.args[0]).strip().show().endswith('.' + fld) and not wb.root.endswith('::new'):
                        out.add(wb.root)
            return out
        writers = touches(table, False)
        probs = []
        for f in derived:
            upd = touches(f, True)
            for w in sorted(writers):
                if w not in upd:
                    probs.append('%s changes the pinned keys but not `%s`, which verify_signature also reads' % (w.rsplit('::', 1)[-1], f))
        ctx.ob('VERIFY-GATE', 'SignatureVerifier:single-key-source', not probs, sv.where(),
               ('verify_signature reads only the pinned-key table `%s`%s' % (table, (' and derived state %s that every writer of the table also updates' % derived) if derived else ''))
               if not probs else ('stale verification key: %s' % '; '.join(probs)), entry=sv.root)
    vf = prog.async_body('upgrade::verifier::SignatureVerifier::verify_file')
    ctx.touch(vf, len(vf.calls()))
    oks = [bb for bb, _ in L.success_returns(vf)]
    ck = all(L.success_conds(vf, bb, r'::verify_checksum$') for bb in oks) and bool(oks)
    sg = all(any(cd.kind == 'bool' and cd.truth and cd.expr.mentions_call(r'SignatureVerifier::verify_signature$') is not None for cd in F.dominating_conds(vf, bb)) for bb in oks) and bool(oks)
    same = False
    cks = [c for c in vf.calls(r'::verify_checksum$')]
    sgs = [c for c in vf.calls(r'SignatureVerifier::verify_signature$')]
    if cks and sgs:
        same = vf.expr(cks[0].args[1]).strip().show() == vf.expr(sgs[0].args[2]).strip().show()
    ctx.ob('VERIFY-GATE', 'verify_file:checksum-and-signature', ck and sg and same, vf.where(),
           'verify_file returns Ok only after verify_checksum Ok (%s) and a true signature verdict (%s) over the same bytes (%s)' % (ck, sg, same))
    iv = prog.bodies.get('upgrade::verifier::PinnedKey::is_valid') or prog.bodies.get('upgrade::PinnedKey::is_valid')
    if iv is None:
        for bid in prog.bodies.keys():
            if bid.endswith('PinnedKey::is_valid'):
                iv = prog.bodies[bid]
    if iv is not None:
        txt = ' '.join(F.edge_cond(iv, e).show() for e in iv.edge_nodes().values())
        alltxt = txt + ' '.join(json.dumps(s) for _, _, s in iv.stmts())
        okw = 'valid_from' in alltxt and 'valid_until' in alltxt
        ctx.ob('VERIFY-GATE', 'PinnedKey::is_valid:window', okw, iv.where(), 'PinnedKey::is_valid consults valid_from and valid_until: %s' % okw)
    else:
        ctx.anchor_fail('VERIFY-GATE', 'PinnedKey::is_valid')
    ctx.floor('VERIFY-GATE', 12)

    # ---- 4. siblings: WriteAuth impls
    impls = prog.impls_of('auth::WriteAuth')
    ni = 0
    for imp in impls:
        for it in imp['items']:
            if it['name'] != 'verify':
                continue
            root = it['def']
            body = None
            for cid in prog.family(root):
                cb = prog.bodies[cid]
                if cb.is_coroutine:
                    body = cb
            if body is None:
                body = prog.body(root)
            ni += 1
            ctx.touch(body, len(body.calls()))
            name = imp['self_ty'].rsplit('::', 1)[-1]
            ps = prim_calls(body, extra=DELEG)
            # record flows into a primitive's message argument
            recflow = False
            for c in ps:
                for a in c.args[1:]:
                    e = body.expr(a)
                    if any(x.k in ('param', 'let', 'local') and x.b in ('record', '_record') for x in e.walk()):
                        recflow = True
                for cb_, cc_ in (closure_prims(body, c, DELEG) if re.search(r'iter::Iterator::', c.declared) else []):
                    for a in cc_.args[1:]:
                        e = cb_.expr(a)
                        if any(x.k in ('param', 'let', 'local') and x.b in ('record', '_record') for x in e.walk()):
                            recflow = True
            ctx.ob('SIBLINGS', 'WriteAuth:%s:record-verified' % name, recflow, body.where(),
                   ('%s::verify hands `record` to a verification primitive' % name) if recflow else
                   ('%s::verify never passes `record` to any verification primitive: its verdict cannot depend on the message (count-only / placeholder)' % name))
            accept_analysis(ctx, prog, body, 'WriteAuth:' + name, ps)
    ctx.floor('SIBLINGS', 5)

    # ---- 5. cover of the address-bound id (name-free): whatever computes the id digest and builds the signed message inside
    # `verify` (its helpers spliced in) reads the address, the public key, the salt and the timestamp
    need = ('ip_addr', 'public_key', 'salt', 'timestamp_secs')
    fr = L.fields_read(prog, gv, 'security::GenericIpNodeID', depth=3)
    # which of those reach (a) a digest update, (b) the message argument of the verification primitive
    def fields_into(calls_rx, argsel):
        got = set()
        for c in gv.calls(calls_rx):
            for a in argsel(c):
                if 'p' not in a:
                    continue
                sl = gv.backward_locals([a['p'][0]], limit=2500)
                for bi_, si_, s_ in gv.stmts():
                    if s_['d'][0] in sl or True:
                        for o_ in F._rvalue_operands(s_['r']):
                            if 'p' in o_ and s_['d'][0] in sl:
                                for p_ in o_['p'][1:]:
                                    if isinstance(p_, str) and p_.startswith('.security::GenericIpNodeID::'):
                                        got.add(p_.rsplit('::', 1)[-1])
                for cc in gv.calls():
                    if cc.dest and cc.dest[0] in sl:
                        for a2 in cc.args:
                            if 'p' in a2:
                                for p_ in a2['p'][1:]:
                                    if isinstance(p_, str) and p_.startswith('.security::GenericIpNodeID::'):
                                        got.add(p_.rsplit('::', 1)[-1])
        return got
    dig = set()
    for c in gv.calls(r'Digest>::update$|Digest::update$|Update>::update$|Hasher::update$'):
        for a in c.args[1:]:
            e_ = gv.expr(a)
            for x in e_.walk():
                if x.k == 'field' and isinstance(x.b, str) and x.b.startswith('security::GenericIpNodeID::'):
                    dig.add(x.b.rsplit('::', 1)[-1])
            if 'p' in a:
                for l_ in gv.backward_locals([a['p'][0]], limit=600):
                    ee = F.Expr.of_local(gv, l_, 12)
                    for x in ee.walk():
                        if x.k == 'field' and isinstance(x.b, str) and x.b.startswith('security::GenericIpNodeID::'):
                            dig.add(x.b.rsplit('::', 1)[-1])
    msgf = set()
    for c in prim_calls(gv):
        if len(c.args) > 1 and 'p' in c.args[1]:
            for l_ in gv.backward_locals([c.args[1]['p'][0]], limit=2500):
                ee = F.Expr.of_local(gv, l_, 12)
                for x in ee.walk():
                    if x.k == 'field' and isinstance(x.b, str) and x.b.startswith('security::GenericIpNodeID::'):
                        msgf.add(x.b.rsplit('::', 1)[-1])
    for nm, got in (('compute_node_id', dig), ('build_message', msgf)):
        okc = all(f in got for f in need)
        ctx.ob('COVER', 'GenericIpNodeID::%s' % nm, okc, gv.where(),
               '%s covers %s (needs address, public key, salt, timestamp): %s' % ('the id digest' if nm == 'compute_node_id' else 'the signed message', sorted(got), okc))
    # recorded only
    for fid in ('dht::skademlia::SKademlia::verify_distance_proof', 'dht::authenticated_sibling_broadcast::SiblingBroadcastValidator::verify_signature'):
        if prog.has_body(fid):
            ctx.note('further verifier (outside the named scope, not judged): %s' % fid)
