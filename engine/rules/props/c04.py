"""C04 — replies reach only the matching request from the contacted peer; no leaks (structural clauses)."""
import json
import re
import facts as F
import lib as L

EXPLANATION = (
    "Static decision of structural clauses of C04 for the three pending tables (manager.active_operations, "
    "transport.active_requests, core-engine.pending_requests) on MIR: (1) COMPLETION-GATE — every oneshot send that completes a "
    "pending entry is dominated by the entry lookup under the reply's id and by an equality between the entry's expected peer "
    "and the authenticated connection id (a parameter / receive-tuple value, never a payload field); (2) AT-MOST-ONCE — the "
    "table stores a oneshot::Sender (send consumes it) which is taken / removed before the send, inside one guard with the "
    "check; (3) PAIR — from every insert, every path to a return removes the entry (or ends in a completed/closed channel); (4) "
    "CANCEL-SAFE — where an await lies between insert and remove, a Drop guard or a sweep of that table must exist; (5) CAP — "
    "the capacity test and the insert lie in one write-guard section and compare against the documented constants (256 / 10 000)."
)
NOT_DECIDED = "behaviour under real schedules; uuid collision; fairness of the tokio locks"
ASSUMPTIONS = ["tokio::sync::oneshot::Sender::send consumes the sender", "std/tokio locks give mutual exclusion"]

MGR = 'dht_network_manager::DhtNetworkManager'
TH = 'transport_handle::TransportHandle'
ENG = 'dht::core_engine::DhtCoreEngine'
SEND = r'oneshot::Sender::<.*>::send$'


def table_calls(b, field, rx):
    """calls matching rx whose receiver derives from a guard of lock field `field`"""
    out = []
    for c in b.calls(rx):
        if not c.args:
            continue
        e = b.expr(c.args[0])
        acq = e.mentions_call(L.LOCK_ACQ)
        if acq is not None and acq.b and acq.b[0].strip().show().endswith('.' + field):
            out.append(c)
        elif acq is not None and acq.b and any(x.k == 'param' and x.b == field for x in acq.b[0].walk()):
            out.append(c)
    return out


def yields_between(b, a_bb, targets):
    """yield blocks reachable from a_bb from which a target is reachable"""
    out = []
    reach = b.reachable_from([a_bb])
    for bi, t in b.terms():
        if t['k'] == 'yield' and bi in reach:
            r2 = b.reachable_from([bi])
            if any(x in r2 for x in targets):
                out.append(bi)
    return out


def run(ctx):
    prog = ctx.prog

    # =========================================================== table A: manager.active_operations
    # bodies are analysed with their same-file helpers spliced in (inline.py), so that extracting the registration,
    # the removal or the reply delivery into a private helper changes nothing for the path rules below
    sd = prog.inl(MGR + '::send_dht_request', keep=r'::sweep_expired_operations$')
    hr = prog.inl(MGR + '::handle_dht_response')
    for b in (sd, hr):
        ctx.touch(b, len(b.calls()))
    ins = table_calls(sd, 'active_operations', r'HashMap::<.*>::insert$')
    rem = table_calls(sd, 'active_operations', r'HashMap::<.*>::remove$')
    rets = sd.return_blocks()
    if not ins:
        ctx.ob('PAIR', 'A:insert', False, sd.where(), 'insert into active_operations not found in send_dht_request')
    poisoned = []
    for nnode, e in sd.edge_nodes().items():
        cd = F.edge_cond(sd, e)
        if cd.kind == 'disc' and not cd.variant_is(0) and cd.expr.mentions_call(L.LOCK_ACQ) is not None and 'active_operations' in cd.expr.show():
            poisoned.append(nnode)
    for i, c in enumerate(ins):
        ok, wit = L.must_pass(sd, [c.target], [r.bb for r in rem] + poisoned, rets)
        ctx.ob('PAIR', 'A:insert#%d->remove' % i, ok and bool(rem), c.where(),
               'every path from the insert into active_operations to a return removes the entry (or finds the mutex poisoned): %s' % ok, entry=MGR + '::send_dht_request')
        same_key = bool(rem) and sd.expr(c.args[1]).strip().show() == sd.expr(rem[0].args[1]).strip().show()
        ctx.ob('PAIR', 'A:insert#%d:same-key' % i, same_key, c.where(), 'inserted and removed under the same message id: %s' % same_key)
        ys = yields_between(sd, c.bb, [r.bb for r in rem])
        sweep = prog.body(MGR + '::sweep_expired_operations')
        sw_ret = [x for cid in prog.family(sweep.id) for x in table_calls(prog.bodies[cid], 'active_operations', r'HashMap::<.*>::retain$')]
        sw_called = any(cc.callee == sweep.id and sd.dominates(cc.bb, c.bb) for cc in sd.calls())
        ctx.ob('CANCEL-SAFE', 'A:sweep', (not ys) or (bool(sw_ret) and sw_called), c.where(),
               '%d await point(s) between insert and remove; a dropped future is collected by sweep_expired_operations (retain on the table: %s, called before every insert: %s)' % (len(ys), bool(sw_ret), sw_called))
    # completion
    sends = hr.calls(SEND)
    if not sends:
        ctx.ob('COMPLETION-GATE', 'A:send', False, hr.where(), 'no oneshot send in handle_dht_response')
    for i, c in enumerate(sends):
        conds = F.dominating_conds(hr, c.bb)
        idm = any(cd.kind == 'disc' and cd.variant_is(1) and cd.expr.mentions_call(r'HashMap::<.*>::get_mut$|HashMap::<.*>::get$|HashMap::<.*>::remove$') is not None
                  and 'message_id' in cd.expr.show() for cd in conds)
        auth, why = _sender_gate(hr, conds, expected=('peer_id', 'contacted_nodes'), conn=('sender',))
        ctx.ob('COMPLETION-GATE', 'A:send#%d:id' % i, idm, c.where(), 'completion is dominated by the lookup of the reply\'s message_id in active_operations: %s' % idm)
        ctx.ob('COMPLETION-GATE', 'A:send#%d:sender' % i, auth, c.where(), 'completion is dominated by context.peer_id == sender (or contacted_nodes.contains(sender)): %s%s' % (auth, why))
        tk = hr.expr(c.args[0]).mentions_call(r'Option::<.*>::take$')
        ctx.ob('AT-MOST-ONCE', 'A:send#%d:taken' % i, tk is not None and 'response_tx' in tk.show(), c.where(), 'the sender is taken out of the entry (response_tx.take()) before it is used: %s' % (tk is not None))
        gs = [g for g in L.guards(hr) if g.lock_field() == 'active_operations']
        okat = bool(gs) and L.atomic_section(hr, gs[0], gs[0].def_bb, c.bb)[0]
        ctx.ob('AT-MOST-ONCE', 'A:send#%d:one-guard' % i, okat, c.where(), 'lookup, authorisation and completion happen under one active_operations guard with no await: %s' % okat)
    _no_unauth_effect(ctx, hr, 'A', 'active_operations', ('peer_id', 'contacted_nodes'), ('sender',), MGR + '::handle_dht_response')
    # sender provenance up the chain: handle_dht_message passes its `sender` parameter
    hm = prog.inl(MGR + '::handle_dht_message', keep=r'::handle_dht_response$')
    okp = False
    for cc in hm.calls():
        if cc.callee == MGR + '::handle_dht_response':
            okp = hm.expr(cc.args[2]).strip().show() == 'sender'
    ctx.ob('COMPLETION-GATE', 'A:sender-is-connection-id', okp, hm.where(), 'handle_dht_message hands its `sender` parameter (the connection id, see C05) to handle_dht_response: %s' % okp)
    fty = prog.field_ty('dht_network_manager::DhtOperationContext', 'response_tx')
    ctx.ob('AT-MOST-ONCE', 'A:type', 'oneshot::Sender' in fty, 'src/dht_network_manager.rs', 'DhtOperationContext.response_tx : %s' % fty)

    # =========================================================== table B: transport.active_requests
    sr = prog.inl(TH + '::send_request')
    ctx.touch(sr, len(sr.calls()))
    ins = table_calls(sr, 'active_requests', r'HashMap::<.*>::insert$')
    rem = table_calls(sr, 'active_requests', r'HashMap::<.*>::remove$')
    rets = sr.return_blocks()
    for i, c in enumerate(ins):
        ok, wit = L.must_pass(sr, [c.target], [r.bb for r in rem], rets)
        ctx.ob('PAIR', 'B:insert#%d->remove' % i, ok and bool(rem), c.where(), 'every path from the insert into active_requests to a return removes the entry: %s' % ok, entry=TH + '::send_request')
        keys = set(sr.expr(r.args[1]).strip().show() for r in rem) | {sr.expr(c.args[1]).strip().show()}
        ctx.ob('PAIR', 'B:insert#%d:same-key' % i, len(keys) == 1, c.where(), 'inserted and removed under the same message id: %s' % (len(keys) == 1))
        ys = yields_between(sr, c.bb, [r.bb for r in rem])
        guard_ty, sweep = _cancel_protection(prog, 'active_requests', sr)
        # a drop guard protects only from the point where it exists: it must be constructed before the first await that
        # follows the insert (a future dropped in between leaves the entry behind for ever)
        if guard_ty and ys and not sweep:
            gty = getattr(_cancel_protection, 'last_guard_ty', None)
            gblocks = [bi_ for bi_, si_, s_ in sr.stmts() if s_['r']['k'] == 'agg' and gty and str(s_['r'].get('adt', '')).split('<')[0] == gty]
            gblocks += [cs_.bb for cs_ in sr.calls() if gty and cs_.dest and gty in sr.local_ty(cs_.dest[0]) and cs_.callee.startswith(gty.rsplit('::', 1)[0])]
            early = [g_ for g_ in gblocks if sr.dominates(c.bb, g_) and not yields_between(sr, c.bb, [g_])]
            ctx.ob('CANCEL-SAFE', 'B:guard-before-first-await', bool(early), c.where(),
                   'the drop guard is constructed after the insert with no await point in between' if early else
                   'the drop guard (%s) is constructed only after an await point that follows the insert into active_requests: a request future dropped '
                   'while suspended there leaks its slot for ever (256 leaks refuse every later request)' % (gty or 'drop guard'), entry=TH + '::send_request')
        ctx.ob('CANCEL-SAFE', 'B:cancel', (not ys) or guard_ty or sweep, c.where(),
               ('%d await point(s) lie between the insert into active_requests and its removal, and neither a Drop guard nor a sweep of the table exists: '
                'a dropped send_request future leaks one of %s slots for ever' % (len(ys), 'MAX_ACTIVE_REQUESTS')) if (ys and not guard_ty and not sweep) else
               'cancellation between insert and remove is covered (drop guard: %s, sweep: %s)' % (guard_ty, sweep), entry=TH + '::send_request')
        # cap
        gs = [g for g in L.guards(sr) if g.lock_field() == 'active_requests' and g.mode == 'write' and sr.dominates(g.acq.bb, c.bb)]
        capc = None
        for cd in F.dominating_conds(sr, c.bb):
            if L.cmp_is(cd, lambda e: e.mentions_call(r'HashMap::<.*>::len$') is not None, 'Lt', lambda e: _cv(prog, e) is not None):
                capc = cd
        okcap = False
        if capc is not None and gs:
            lc = capc.lhs.mentions_call(r'HashMap::<.*>::len$') or capc.rhs.mentions_call(r'HashMap::<.*>::len$')
            cap_bb = lc.c.bb if lc is not None and lc.c is not None else capc.edge[0]
            okcap = any(sr.dominates(g.def_bb, cap_bb) and L.atomic_section(sr, g, cap_bb, c.bb)[0] for g in gs)
            capv = _cv(prog, capc.rhs) if _cv(prog, capc.rhs) is not None else _cv(prog, capc.lhs)
            okcap = okcap and capv == 256
        ctx.ob('CAP', 'B:cap-atomic', okcap, c.where(), 'len() < MAX_ACTIVE_REQUESTS (256) test and insert inside one write guard: %s' % okcap)
    # completion in the receive loop
    recv = None
    for bid in prog.family(TH + '::start_message_receiving_system'):
        ib = prog.inl(bid)
        if ib.calls(SEND) and ib.is_coroutine:
            recv = ib
    if recv is None:
        ctx.ob('COMPLETION-GATE', 'B:send', False, '-', 'receive loop completing /rr/ requests not found (anchor)')
    else:
        ctx.touch(recv, len(recv.calls()))
        # the connection id: what ant_peer_id_to_string makes of the peer id in the receive tuple (identified by provenance)
        conn_locals = set()
        src_ok = False
        for cc in recv.calls(r'::ant_peer_id_to_string$'):
            if cc.dest:
                e = F.Expr('call', cc.callee, [recv.expr(a) for a in cc.args], cc)
                if 'postcard' not in e.show():
                    conn_locals |= L.alias_of(recv, [cc.dest[0]])
                    src_ok = True
        # clones of it are the same id
        for cc in recv.calls(r'Clone>::clone$'):
            if cc.dest and cc.args and 'p' in cc.args[0] and cc.args[0]['p'][0] in conn_locals:
                conn_locals |= L.alias_of(recv, [cc.dest[0]])
        conn_b = frozenset(conn_locals)
        for i, c in enumerate(recv.calls(SEND)):
            conds = F.dominating_conds(recv, c.bb)
            idm = any(cd.kind == 'disc' and cd.variant_is(1) and cd.expr.mentions_call(r'HashMap::<.*>::(get|remove)$') is not None and 'message_id' in cd.expr.show() for cd in conds)
            auth, why = _sender_gate(recv, conds, expected=('expected_peer',), conn=conn_b)
            rm = recv.expr(c.args[0]).mentions_call(r'HashMap::<.*>::remove$')
            ctx.ob('COMPLETION-GATE', 'B:send#%d:id' % i, idm, c.where(), 'completion dominated by the lookup of the envelope\'s message_id: %s' % idm)
            ctx.ob('COMPLETION-GATE', 'B:send#%d:sender' % i, auth and src_ok, c.where(), 'completion dominated by expected_peer == transport_peer_id (%s%s), transport_peer_id derived from the receive tuple (%s)' % (auth, why, src_ok))
            ctx.ob('AT-MOST-ONCE', 'B:send#%d:removed-first' % i, rm is not None, c.where(), 'the entry is removed from the table before its sender is used: %s' % (rm is not None))
            gs = [g for g in L.guards(recv) if g.lock_field() == 'active_requests' or 'active_requests' in g.lock_path()]
            chk = getattr(_sender_gate, 'last_bb', None)
            look = [x.bb for x in table_calls(recv, 'active_requests', r'HashMap::<.*>::get$')]
            pts = [p for p in [chk] + look if p is not None]
            okat = bool(pts) and any(all(recv.dominates(g.def_bb, p) and L.atomic_section(recv, g, p, c.bb)[0] for p in pts) for g in gs)
            ctx.ob('AT-MOST-ONCE', 'B:send#%d:one-guard' % i, okat, c.where(), 'expected-peer check and remove under one write guard, no await: %s' % okat)
    if recv is not None:
        _no_unauth_effect(ctx, recv, 'B', 'active_requests', ('expected_peer',), conn_b, TH + '::start_message_receiving_system')
    fty = prog.field_ty('network::PendingRequest', 'response_tx')
    ctx.ob('AT-MOST-ONCE', 'B:type', 'oneshot::Sender' in fty, 'src/network.rs', 'PendingRequest.response_tx : %s' % fty)

    # =========================================================== table C: core engine pending_requests
    qn = prog.inl(ENG + '::query_node_for_key')
    hp = prog.inl(ENG + '::handle_response')
    for b in (qn, hp):
        ctx.touch(b, len(b.calls()))
    ins = table_calls(qn, 'pending_requests', r'LruCache::<.*>::(put|push)$')
    rem = table_calls(qn, 'pending_requests', r'LruCache::<.*>::pop$')
    rets = qn.return_blocks()
    # the channel-completed arms: the entry was consumed (sent) or dropped by its owner
    done = []
    for nnode, e in qn.edge_nodes().items():
        cd = F.edge_cond(qn, e)
        if cd.kind == 'disc' and cd.variant_is(0) and not L.is_poll_disc(cd) and cd.expr.mentions_call(r'time::timeout') is not None:
            done.append(nnode)
        if cd.kind == 'disc' and cd.variant_is(0) and not L.is_poll_disc(cd) and 'Timeout' in cd.expr.show() and 'poll' in cd.expr.show():
            done.append(nnode)
    for i, c in enumerate(ins):
        ok, wit = L.must_pass(qn, [c.target], [r.bb for r in rem] + done, rets)
        ctx.ob('PAIR', 'C:insert#%d->pop' % i, ok and bool(rem), c.where(),
               'every path from the put into pending_requests to a return pops the entry or ends in a completed / closed channel: %s' % ok, entry=ENG + '::query_node_for_key')
        ys = yields_between(qn, c.bb, [r.bb for r in rem] + rets)
        guard_ty, sweep = _cancel_protection(prog, 'pending_requests', qn)
        ctx.ob('CANCEL-SAFE', 'C:cancel', (not ys) or guard_ty or sweep, c.where(),
               ('await points lie between the put into pending_requests and its removal and neither a Drop guard nor a sweep exists: a dropped query leaks its entry, and a full table (10 000) rejects every new query'
                if (ys and not guard_ty and not sweep) else 'cancellation covered (drop guard: %s, sweep: %s)' % (guard_ty, sweep)), entry=ENG + '::query_node_for_key')
        gs = [g for g in L.guards(qn) if g.lock_field() == 'pending_requests' and g.mode == 'write' and qn.dominates(g.acq.bb, c.bb)]
        capc = None
        for cd in F.dominating_conds(qn, c.bb):
            if L.cmp_is(cd, lambda e: e.mentions_call(r'LruCache::<.*>::len$') is not None, 'Lt', lambda e: _cv(prog, e) is not None):
                capc = cd
        okcap = False
        if capc is not None and gs:
            lc = capc.lhs.mentions_call(r'LruCache::<.*>::len$') or capc.rhs.mentions_call(r'LruCache::<.*>::len$')
            cap_bb = lc.c.bb if lc is not None and lc.c is not None else capc.edge[0]
            okcap = any(qn.dominates(g.def_bb, cap_bb) and L.atomic_section(qn, g, cap_bb, c.bb)[0] for g in gs)
            capv = _cv(prog, capc.rhs) if _cv(prog, capc.rhs) is not None else _cv(prog, capc.lhs)
            okcap = okcap and capv == 10000
        ctx.ob('CAP', 'C:cap-atomic', okcap, c.where(), 'len() < MAX_PENDING_DHT_REQUESTS (10 000) test and put inside one write guard: %s' % okcap)
    for i, c in enumerate(hp.calls(SEND)):
        conds = F.dominating_conds(hp, c.bb)
        idm = any(cd.kind == 'disc' and cd.variant_is(1) and cd.expr.mentions_call(r'LruCache::<.*>::pop$') is not None for cd in conds)
        root = prog.body(ENG + '::handle_response')
        params = [root.local_name(j) for j in range(1, root.argc + 1)]
        has_sender = any(p and re.search(r'sender|peer|source|from', p) for p in params[1:])
        auth = False
        if has_sender:
            auth, _w = _sender_gate(hp, conds, expected=('expected', 'peer'), conn=tuple(p for p in params[1:] if p))
        ctx.ob('COMPLETION-GATE', 'C:send#%d:id' % i, idm, c.where(), 'completion dominated by pop(response id): %s' % idm)
        ctx.ob('COMPLETION-GATE', 'C:send#%d:sender' % i, auth, c.where(),
               'handle_response(%s) %s' % (', '.join(str(p) for p in params), 'checks the authenticated sender' if auth else
                                          'has no authenticated-sender input at all: any caller-supplied response carrying a pending id completes that request, whoever sent it'))
    ctx.floor('PAIR', 5)
    ctx.floor('UNAUTH-NO-EFFECT', 2)
    ctx.floor('COMPLETION-GATE', 7)
    ctx.floor('AT-MOST-ONCE', 6)
    ctx.floor('CANCEL-SAFE', 4)
    ctx.floor('CAP', 2)


MUTATORS = r'(HashMap|LruCache|BTreeMap)::<.*>::(remove|remove_entry|pop|pop_entry|insert|put|push|clear|retain|drain|extract_if)$'


def _no_unauth_effect(ctx, b, tag, field, expected, conn, entry):
    """UNAUTH-NO-EFFECT: in the reply handler, everything that changes the pending table or takes the completion
    sender out of an entry is dominated by the authorisation of the connection id. A reply from any other peer,
    whatever id it carries, therefore leaves every pending request as it was."""
    sites = [(c, '%s.%s' % (field, c.short())) for c in table_calls(b, field, MUTATORS)]
    for c in b.calls(r'Option::<.*>::take$|mem::take$|mem::replace$'):
        e = b.expr(c.args[0])
        if 'response_tx' in e.show() and (e.mentions_call(L.LOCK_ACQ) is not None):
            sites.append((c, 'response_tx.take'))
    if not sites:
        ctx.ob('UNAUTH-NO-EFFECT', '%s:effects' % tag, False, b.where(), 'no mutation of %s / take of response_tx found in the reply handler (anchor)' % field)
    for i, (c, what) in enumerate(sites):
        auth, why = _sender_gate(b, F.dominating_conds(b, c.bb), expected=expected, conn=conn)
        ctx.ob('UNAUTH-NO-EFFECT', '%s:effect#%d:%s' % (tag, i, what), auth, c.where(),
               ('%s happens only after the sender was authorised' % what) if auth else
               ('%s is NOT dominated by the sender authorisation: a reply from a peer that was not contacted, carrying a pending id, '
                'changes that pending request' % what), entry=entry)


def _cv(prog, e):
    st = e.strip()
    v = st.const_value()
    if v is None and st.k == 'const' and st.d in prog.consts:
        v = prog.const_val(st.d)
    return v


def _sender_gate(b, conds, expected, conn):
    """is there a dominating fact equating an `expected` field of the pending entry with the
    connection id (`conn` names)? handles ==, != (false edge) and `a == s || list.contains(s)` locals."""
    def mentions(e, names):
        if isinstance(names, (set, frozenset)):
            # an alias class of locals (the connection id identified by provenance, not by its name)
            return bool(L.expr_locals(e) & names)
        t = e.show()
        nm = L._names(e) + ' ' + ' '.join(x.b or '' for x in e.walk() if x.k == 'param')
        return any(n in t or n in nm for n in names)

    def rel(e, truth):
        # e: boolean expression; truth: its known value
        e0 = e
        while e0.k == 'let':
            e0 = e0.c
        if e0.k == 'call' and e0.c is not None:
            d = e0.c.declared
            if d.endswith('cmp::PartialEq::eq') and truth or d.endswith('cmp::PartialEq::ne') and not truth:
                return mentions(e0, expected) and mentions(e0, conn)
            if re.search(r'::contains$', e0.a) and truth:
                return mentions(e0, expected) and mentions(e0, conn)
        if e0.k == 'bin' and ((e0.a == 'Eq' and truth) or (e0.a == 'Ne' and not truth)):
            return mentions(e0, expected) and mentions(e0, conn)
        return False

    for cd in conds:
        if cd.kind == 'bool':
            if rel(cd.expr, cd.truth):
                _sender_gate.last_bb = _eval_bb(cd)
                return True, ''
            ex = cd.expr
            while ex.k == 'let':
                ex = ex.c
            if ex.k == 'local' and cd.truth:
                # `let ok = a == s || list.contains(s)`: every way of making it true relates the two
                ds = b.defs().get(ex.a, [])
                good = bool(ds)
                for d in ds:
                    if d[0] == 's':
                        r = d[3]['r']
                        if r['k'] == 'use' and r['o'].get('v') == '1':
                            dc = F.dominating_conds(b, d[1], expand=False)
                            good = good and any(c2.kind == 'bool' and rel(c2.expr, c2.truth) for c2 in dc)
                        elif r['k'] == 'use' and r['o'].get('v') == '0':
                            continue
                        else:
                            good = good and rel(F.Expr.of_rvalue(b, r, 20), True)
                    else:
                        cs = F.CallSite(b, d[1], d[3])
                        ee = F.Expr('call', cs.callee, [F.Expr.of_operand(b, a, 20) for a in cs.args], cs)
                        good = good and rel(ee, True)
                if good:
                    _sender_gate.last_bb = min(d[1] for d in ds)
                    return True, ' (via local `%s`)' % (ex.b or ex.a)
        if cd.kind == 'cmp' and cd.op == 'Eq' and (mentions(cd.lhs, expected) or mentions(cd.lhs, conn)) and (mentions(cd.rhs, expected) or mentions(cd.rhs, conn)):
            _sender_gate.last_bb = _eval_bb(cd)
            return True, ''
    _sender_gate.last_bb = None
    return False, ''


def _eval_bb(cd):
    """the block in which the compared values are produced (the comparison call), else the switch"""
    for x in (cd.expr.walk() if cd.expr is not None else []):
        if x.k == 'call' and x.c is not None and (x.c.declared.endswith('cmp::PartialEq::eq') or x.c.declared.endswith('cmp::PartialEq::ne')):
            return x.c.bb
    return cd.edge[0] if cd.edge else None


def _cancel_protection(prog, field, body):
    """(drop guard exists, sweep exists) for the table `field`"""
    guard = False
    sweep = False
    for imp in prog.impls:
        if imp.get('trait') == 'std::ops::Drop':
            for it in imp['items']:
                db = prog.bodies.get(it['def'])
                if db is None:
                    continue
                for cid in prog.family(db.id):
                    cb = prog.bodies[cid]
                    if any(field in cb.expr(c.args[0]).show() for c in cb.calls(r'::(remove|pop|retain)$') if c.args):
                        # the guard type must be instantiated in `body`
                        if any(imp['self_ty'].split('<')[0] in l['ty'] for l in body.locals):
                            guard = True
                            _cancel_protection.last_guard_ty = imp['self_ty'].split('<')[0]
    tag = json.dumps(field)
    for b in prog.bodies.containing(field):
        if b.file != body.file:
            continue
        for c in b.calls(r'::retain$'):
            if c.args and field in b.expr(c.args[0]).show():
                sweep = True
    return guard, sweep
