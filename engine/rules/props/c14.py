"""C14 — join and request rate limits hold for every arrival pattern (structural clauses)."""
import json
import re
import facts as F
import lib as L

EXPLANATION = (
    "Static decision of structural clauses of C14 on MIR of src/rate_limit.rs, src/validation.rs, src/bootstrap/manager.rs and "
    "src/transport_handle.rs: (1) ADMIT-GATE — in Bucket::try_consume the token decrement, the window-count increment and the "
    "`true` return are dominated by both budget conditions (tokens >= 1 and in-window < max); refill is capped at burst before "
    "the test; no path from a failed condition writes either budget; these are the only writers; (2) TABLE — limiter field <- "
    "EngineConfig(window, max, burst) <- config field, and at the use site limiter field <- prefix extractor, with the prefix "
    "byte counts 8 / 6 / 3; Ok of check_join_allowed requires the true verdict of every limiter on its arm; (3) GATE — the "
    "bootstrap-cache insert and the listener's peer registration are dominated by the limiter's success; (4) KEY — the bucket "
    "consumed is the map entry of the key passed."
    ' (5) every write of the token budget in try_consume is the time-earned refill, the cap at burst or the consumption of one token, and the bucket is never replaced as a whole; helpers of try_consume / new / check_join_allowed are spliced in.'
    ' ADMIT-GATE also decides refill-advances-clock: a tokens write computed from `now - self.<clock>` is followed on every path to a return by a write of that clock field (a denied attempt must not keep the credit while the clock stands still).'
)
NOT_DECIDED = "refill arithmetic against measured time, float rounding, LRU eviction of a bucket resetting its budget, concurrency of the global mutex"
ASSUMPTIONS = ["parking_lot::RwLock write guard gives mutual exclusion per engine", "Instant is monotone"]

BUCKET = 'rate_limit::Bucket'
JRL = 'rate_limit::JoinRateLimiter'


def run(ctx):
    prog = ctx.prog
    prog.adt(BUCKET)
    # try_consume with its private helpers (window roll-over, refill ..) spliced in
    tc = prog.inl(BUCKET + '::try_consume')
    ctx.touch(tc, len(tc.calls()))
    TC_ROOT = BUCKET + '::try_consume'

    def in_tc(b):
        return b.root == TC_ROOT or prog.owner_roots(b.root, stop={TC_ROOT}) == {TC_ROOT}

    # ---- 1. admit gate
    conds_needed = {'tokens': False, 'window': False}
    # writers elsewhere in the crate (closed world); the writes of try_consume itself are read off its inlined body
    for fld, tagname in (('tokens', 'tokens'), ('requests_in_window', 'window')):
        for b, bi, k, th in L.field_writes(prog, BUCKET, fld):
            if k == 'aggregate':
                if fld == 'tokens':
                    ctx.ob('WHO-WRITES', 'tokens:construct:%s' % b.id, b.id == BUCKET + '::new' or prog.owner_roots(b.root, stop={BUCKET + '::new'}) == {BUCKET + '::new'},
                           b.where(th.get('ln')), 'Bucket constructed in %s' % b.id)
                continue
            if not in_tc(b):
                ctx.ob('WHO-WRITES', '%s:writer:%s' % (tagname, b.id), False, b.where(), 'a second writer of Bucket.%s' % fld)
    writes_tok = [(tc, bi, k, th) for (bi, k, th) in L.body_field_writes(tc, BUCKET, 'tokens') if k != 'aggregate']
    writes_win = [(tc, bi, k, th) for (bi, k, th) in L.body_field_writes(tc, BUCKET, 'requests_in_window') if k != 'aggregate']
    dec = []
    inc = []
    for b, bi, k, th in writes_tok:
        if k == 'assign':
            e = F.Expr.of_rvalue(b, th['r'], 20).strip()
            if e.k == 'bin' and e.a == 'Sub':
                dec.append((bi, th))
    for b, bi, k, th in writes_win:
        if k == 'assign':
            e = F.Expr.of_rvalue(b, th['r'], 20).strip()
            if e.k == 'bin' and e.a == 'Add':
                inc.append((bi, th))
    true_rets = [d for d in tc.defs().get(0, []) if d[0] == 's' and d[3]['r']['k'] == 'use' and d[3]['r']['o'].get('v') == '1']
    # `let admitted = a && b; if admitted {..}; admitted`: the verdict is returned from a bool local — "returns true" then
    # means that local is true, and the gates are what is known when it is
    flag_rets = []
    if not true_rets:
        for d in tc.defs().get(0, []):
            if d[0] == 's' and d[3]['r']['k'] == 'use' and 'p' in d[3]['r']['o'] and len(d[3]['r']['o']['p']) == 1 and tc.local_ty(d[3]['r']['o']['p'][0]) == 'bool':
                flag_rets.append((d, d[3]['r']['o']['p'][0]))
        if len(flag_rets) == 1:
            true_rets = [flag_rets[0][0]]

    def gated(bb):
        cs = F.dominating_conds(tc, bb)
        if flag_rets and len(flag_rets) == 1 and bb == flag_rets[0][0][1]:
            cs = cs + F.bool_local_conds(tc, flag_rets[0][1], True)
        t_ok = w_ok = False
        for c in cs:
            if L.cmp_is(c, L.ends('.tokens'), 'Ge', lambda e: e.const_value() is not None and e.const_value() >= 1.0):
                t_ok = True
            if L.cmp_is(c, L.ends('.requests_in_window'), 'Lt', L.ends('.max_requests')):
                w_ok = True
        return t_ok, w_ok

    sites = [('decrement', bi, th.get('ln')) for bi, th in dec] + [('increment', bi, th.get('ln')) for bi, th in inc] + \
            [('return-true', d[1], d[3].get('ln')) for d in true_rets]
    for name, bb, ln in sites:
        t_ok, w_ok = gated(bb)
        ctx.ob('ADMIT-GATE', 'try_consume:%s' % name, t_ok and w_ok, tc.where(ln),
               '%s is dominated by tokens >= 1: %s, and by requests_in_window < max_requests: %s' % (name, t_ok, w_ok))
    ctx.floor('ADMIT-GATE', 3)
    # a failed budget test writes neither budget
    fails = []
    for nnode, e in tc.edge_nodes().items():
        c = F.edge_cond(tc, e)
        if L.cmp_is(c, L.ends('.tokens'), 'Lt', lambda e: e.const_value() is not None) or \
                L.cmp_is(c, L.ends('.requests_in_window'), 'Ge', L.ends('.max_requests')):
            fails.append(nnode)
    wblocks = set(bi for b, bi, k, th in writes_tok + writes_win if b.id == tc.id and k != 'aggregate')
    reach = tc.reachable_tracking(fails) if fails else set()
    bad = sorted(reach & wblocks)
    ctx.ob('ADMIT-GATE', 'try_consume:denial-writes-nothing', bool(fails) and not bad, tc.where(tc.line_of_block(bad[0]) if bad else None),
           'after a failed budget test neither tokens nor requests_in_window is written' if not bad else
           'a denied attempt writes a budget field at line %s' % tc.line_of_block(bad[0]))
    ok_counts = len(dec) == 1 and len(inc) == 1 and len(true_rets) == 1
    ctx.ob('ADMIT-GATE', 'try_consume:single-consumer', ok_counts, tc.where(),
           'exactly one token decrement (%d), one window increment (%d), one `true` return (%d)' % (len(dec), len(inc), len(true_rets)))
    # refill is capped at burst before the test
    capped = False
    for b, bi, k, th in writes_tok:
        if b.id == tc.id and k == 'assign':
            e = F.Expr.of_rvalue(b, th['r'], 20)
            if e.mentions_call(r'f64.*::min$') is not None and 'burst_size' in e.show():
                if dec and b.dominates(bi, dec[0][0]):
                    capped = True
    ctx.ob('ADMIT-GATE', 'try_consume:refill-capped', capped, tc.where(), 'tokens = min(tokens, burst_size) dominates the budget test: %s' % capped)

    # every write of the token budget is one of: earned refill (tokens + elapsed-time x rate), the cap at burst, the
    # consumption of one token. A reset to a constant / to burst, or replacing the bucket as a whole (`*self = ..`) at a
    # window roll-over, hands out budget that was never earned.
    def _is_tokens(e):
        return e.strip().show().endswith('.tokens')

    def _earned(e):
        return any(x.k == 'call' and re.search(r'Instant::(duration_since|elapsed|saturating_duration_since)$|Duration::as_secs_f(64|32)$', x.a) for x in e.walk())

    def _classify(e):
        st = e.strip()
        if st.k == 'bin' and st.a == 'Sub' and _is_tokens(st.b) and st.c.const_value() == 1.0:
            return 'consume'
        if st.k == 'bin' and st.a == 'Add' and ((_is_tokens(st.b) and _earned(st.c)) or (_is_tokens(st.c) and _earned(st.b))):
            return 'refill'
        if st.k == 'call' and re.search(r'f64.*::min$', st.a) and len(st.b) == 2:
            a0, a1 = st.b
            for x, y in ((a0, a1), (a1, a0)):
                if 'burst_size' in y.show() and (_is_tokens(x) or _classify(x) == 'refill'):
                    return 'cap'
        if st.k == 'call' and re.search(r'f64.*::clamp$', st.a) and len(st.b) == 3 and 'burst_size' in st.b[2].show() and (_is_tokens(st.b[0]) or _classify(st.b[0]) == 'refill'):
            return 'cap'
        return None
    nkinds = {}
    for b, bi, k, th in writes_tok:
        if k == 'assign':
            e = F.Expr.of_rvalue(b, th['r'], 30)
        elif k == 'call-dest':
            cs_ = F.CallSite(b, bi, th)
            e = F.Expr('call', cs_.callee, [F.Expr.of_operand(b, a, 30) for a in cs_.args], cs_)
        else:
            e = None
        kind = _classify(e) if e is not None else None
        nkinds[kind] = nkinds.get(kind, 0) + 1
        if kind is None:
            n = sum(1 for o in ctx.obls if o.key.startswith('try_consume:tokens-write'))
            ctx.ob('ADMIT-GATE', 'try_consume:tokens-write#%d' % n, False, tc.where(th.get('ln')),
                   'tokens is written with %s: neither the time-earned refill, nor the cap at burst, nor the consumption of one token — '
                   'budget appears that was not earned' % (e.brief(80) if e is not None else 'a mutable borrow handed out'))
    # a credit of time-earned tokens is paired with the advance of the clock it was measured from: "a denied attempt never
    # increases any budget" — if the refill is computed from `now - self.<clock>` and written, but the clock is advanced on the
    # admitted path only, every denied call credits the same interval again.
    nclock = 0
    for b, bi, k, th in writes_tok:
        if k != 'assign':
            continue
        e = F.Expr.of_rvalue(b, th['r'], 30)
        for x in e.walk():
            if x.k == 'call' and re.search(r'Instant::(duration_since|saturating_duration_since|checked_duration_since)$', x.a) and len(x.b) == 2:
                clk = x.b[1].strip()
                m = re.search(r'\.(\w+)$', clk.show())
                if not m or clk.k != 'field':
                    continue
                cf = m.group(1)
                adv = [wb for (wb, wk, wt) in L.body_field_writes(tc, BUCKET, cf) if wk == 'assign']
                ok_c, wit = L.must_pass(tc, [bi], adv, tc.return_blocks())
                # an advance that dominates the credit (clock read into a local first) is the other accepted order
                if not ok_c and any(tc.dominates(a, bi) for a in adv):
                    ok_c = True
                nclock += 1
                ctx.ob('ADMIT-GATE', 'try_consume:refill-advances-clock:%s' % cf, ok_c, tc.where(th.get('ln')),
                       'the tokens credited for the time since self.%s are written together with an advance of self.%s on every path to a return: %s%s' % (
                           cf, cf, ok_c, '' if ok_c else ' — a return (block %s) is reached with the credit kept and the clock not advanced: each denied attempt re-credits the same interval' % wit))
    if not nclock:
        ctx.ob('ADMIT-GATE', 'try_consume:refill-advances-clock', False, tc.where(), 'no time-earned refill measured from a clock field of the bucket found (anchor)')
    # the bucket replaced as a whole through `*self = ..`
    whole = []
    for bi, si, st_ in tc.stmts():
        d = st_['d']
        if len(d) == 2 and d[1] == '*' and tc.local_ty(d[0]).replace('&mut ', '') == BUCKET:
            whole.append((bi, st_.get('ln')))
    for bi, t_ in tc.terms():
        d = t_.get('d') if t_['k'] == 'call' else None
        if d and len(d) == 2 and d[1] == '*' and tc.local_ty(d[0]).replace('&mut ', '') == BUCKET:
            whole.append((bi, t_.get('ln')))
    ctx.ob('ADMIT-GATE', 'try_consume:tokens-writes-classified', not whole and None not in nkinds and nkinds.get('consume', 0) == 1, tc.where(whole[0][1] if whole else None),
           ('token writes: %s; the bucket is never replaced as a whole' % dict((k, v) for k, v in nkinds.items() if k)) if not whole else
           'try_consume replaces the bucket as a whole (`*self = ..`, line %s): the token budget restarts (at burst) although nothing was earned — a second full burst is admitted' % whole[0][1])

    # ---- 2. table: JoinRateLimiter::new wiring
    nb = prog.inl(JRL + '::new', keep=r'Engine::<.*>::new$|Bucket::new$')
    ctx.touch(nb)
    want = {'per_subnet_64': ('max_joins_per_64_per_hour', 3600), 'per_subnet_48': ('max_joins_per_48_per_hour', 3600),
            'per_subnet_24': ('max_joins_per_24_per_hour', 3600), 'global': ('max_global_joins_per_minute', 60)}
    agg = None
    for bi, si, s in nb.stmts():
        if s['r']['k'] == 'agg' and s['r'].get('adt') == JRL:
            agg = s
    if agg is None:
        raise F.AnchorMissing('JoinRateLimiter aggregate in new')
    for fld, (cfgf, win) in want.items():
        op = L.agg_field_operand(agg, fld)
        e = nb.expr(op) if op else None
        okw = False
        detail = '?'
        if e is not None:
            cfgagg = None
            for x in e.walk():
                if x.k == 'agg' and str(x.a).endswith('EngineConfig::EngineConfig'):
                    cfgagg = x
            if cfgagg is not None and cfgagg.c:
                fm = dict(zip(cfgagg.c, cfgagg.b))
                w = fm.get('window')
                mr = fm.get('max_requests')
                bs = fm.get('burst_size')
                wv = L.duration_secs(prog, w) if w is not None else None
                okw = (wv == win and mr is not None and mr.strip().show().endswith('.' + cfgf))
                if fld != 'global':
                    okw = okw and bs is not None and bs.strip().show().endswith('.' + cfgf)
                else:
                    okw = okw and bs is not None and bs.strip().show().endswith('.global_burst_size')
                detail = 'window=%s max=%s burst=%s' % (wv, mr.strip().brief(60) if mr else None, bs.strip().brief(60) if bs else None)
        ctx.ob('TABLE', 'new:%s' % fld, okw, nb.where(agg.get('ln')), 'limiter %s <- EngineConfig(%s); expected window %d, max from config.%s' % (fld, detail, win, cfgf))
    # defaults
    db = prog.bodies.get('<rate_limit::JoinRateLimiterConfig as std::default::Default>::default')
    if db is None:
        ctx.anchor_fail('TABLE', 'JoinRateLimiterConfig::default')
    else:
        for bi, si, s in db.stmts():
            if s['r']['k'] == 'agg' and s['r'].get('adt', '').endswith('JoinRateLimiterConfig'):
                vals = {f: db.expr(o).const_value() for f, o in zip(s['r']['fields'], s['r']['ops'])}
                okd = vals.get('max_joins_per_64_per_hour') == 1 and vals.get('max_joins_per_48_per_hour') == 5 and vals.get('max_joins_per_24_per_hour') == 3
                ctx.ob('TABLE', 'defaults', okd, db.where(s.get('ln')), 'default per-hour join limits /64,/48,/24 = %s,%s,%s (documented 1,5,3)' % (
                    vals.get('max_joins_per_64_per_hour'), vals.get('max_joins_per_48_per_hour'), vals.get('max_joins_per_24_per_hour')))
    # use site: limiter field <- extractor, and Ok requires every limiter on the arm
    cj = prog.inl(JRL + '::check_join_allowed', keep=r'Engine::<.*>::try_consume|::extract_ipv')
    ctx.touch(cj, len(cj.calls()))
    pairs = {'per_subnet_64': 'extract_ipv6_subnet_64', 'per_subnet_48': 'extract_ipv6_subnet_48', 'per_subnet_24': 'extract_ipv4_subnet_24'}
    tcalls = cj.calls(r'Engine::<.*>::try_consume_key$')
    seen = {}
    for cs in tcalls:
        recv = cj.expr(cs.args[0]).strip().show()
        key = cj.expr(cs.args[1])
        fld = recv.rsplit('.', 1)[-1]
        seen[fld] = (cs, key)
    for fld, ext in pairs.items():
        if fld not in seen:
            ctx.ob('TABLE', 'use:%s' % fld, False, cj.where(), 'limiter %s is never consulted in check_join_allowed' % fld)
            continue
        cs, key = seen[fld]
        okx = key.mentions_call(r'::%s$' % ext) is not None
        ctx.ob('TABLE', 'use:%s' % fld, okx, cs.where(), 'limiter %s is keyed by %s' % (fld, key.brief(60)))
    ctx.ob('TABLE', 'use:global', 'global' in seen and seen['global'][1].strip().const_value() is not None, cj.where(),
           'global limiter keyed by a constant')
    # Ok return needs the true verdict of: global; then per arm
    succ = [bb for bb, _ in L.success_returns(cj)]
    def true_edges(cs):
        out = []
        for nnode, e in cj.edge_nodes().items():
            c = F.edge_cond(cj, e)
            if c.kind == 'bool' and c.truth and c.expr.k == 'call' and c.expr.c is not None and c.expr.c.bb == cs.bb:
                out.append(nnode)
        return out
    def false_edges(cs):
        out = []
        for nnode, e in cj.edge_nodes().items():
            c = F.edge_cond(cj, e)
            if c.kind == 'bool' and (not c.truth) and c.expr.k == 'call' and c.expr.c is not None and c.expr.c.bb == cs.bb:
                out.append(nnode)
        return out
    for fld, (cs, key) in seen.items():
        # from the limiter's false verdict no success return is reachable
        fe = false_edges(cs)
        reach = (cj.reachable_tracking(fe) if getattr(cj, 'inlined', None) else cj.reachable_from(fe)) if fe else set()
        okr = bool(fe) and not (reach & set(succ))
        ctx.ob('DENY-IS-FINAL', 'deny:%s' % fld, okr, cs.where(), 'a false verdict of %s %s reach Ok(())' % (fld, 'cannot' if okr else 'CAN'))
    # every path to Ok passes global; V6 arm passes /64 and /48; V4 arm passes /24
    def arm_edges(variant_idx):
        out = []
        for nnode, e in cj.edge_nodes().items():
            c = F.edge_cond(cj, e)
            if c.kind == 'disc' and c.value == variant_idx and c.expr.strip().show() in ('ip', '*ip'):
                out.append(nnode)
        return out
    ipv = [v['name'] for v in prog.adts.get('std::net::IpAddr', {'variants': []})['variants']]
    v4i, v6i = 0, 1   # std::net::IpAddr { V4, V6 }
    req = [('global', [0]), ('per_subnet_64', arm_edges(v6i)), ('per_subnet_48', arm_edges(v6i)), ('per_subnet_24', arm_edges(v4i))]
    for fld, starts in req:
        if fld not in seen or not starts:
            ctx.ob('MUST-PASS', 'ok-needs:%s' % fld, False, cj.where(), 'cannot locate the %s arm / limiter' % fld)
            continue
        te = true_edges(seen[fld][0])
        okp, wit = L.must_pass(cj, starts, te, succ)
        ctx.ob('MUST-PASS', 'ok-needs:%s' % fld, okp and bool(te), seen[fld][0].where(),
               'every path from the %s to Ok(()) passes the true verdict of %s: %s' % ('entry' if fld == 'global' else 'matching address-family arm', fld, okp))
    ctx.floor('TABLE', 8)
    ctx.floor('MUST-PASS', 4)
    # extractor prefix lengths
    for fn, n in (('extract_ipv6_subnet_64', 8), ('extract_ipv6_subnet_48', 6)):
        b = prog.body('rate_limit::' + fn)
        ends = []
        for r in b.aggregates():
            if str(r.get('adt', '')).endswith('RangeTo') and r['ops']:
                ends.append(b.expr(r['ops'][0]).const_value())
        okp = len(ends) >= 2 and all(x == n for x in ends)
        ctx.ob('PREFIX', fn, okp, b.where(), '%s copies octets[..%s] (expected %d bytes)' % (fn, ends, n))
    b = prog.body('rate_limit::extract_ipv4_subnet_24')
    nw = b.calls(r'Ipv4Addr::new$')
    okp = False
    if nw:
        args = [b.expr(a) for a in nw[0].args]
        idx = [re.search(r'\[#?(\d+)\]|\[(\d+)_usize\]|\[_', a.show()) is not None for a in args[:3]]
        last = args[3].const_value() if len(args) > 3 else None
        kept = [a.show() for a in args[:3]]
        okp = last == 0 and all('octets' in k or 'index' in k.lower() or '[' in k for k in kept) and all(a.const_value() is None for a in args[:3])
    ctx.ob('PREFIX', 'extract_ipv4_subnet_24', okp, b.where(), 'Ipv4Addr::new keeps three octets and zeroes the last: %s' % okp)

    # ---- 3. gates at the consumers
    ab = prog.async_body('bootstrap::manager::BootstrapManager::add_peer')
    ctx.touch(ab, len(ab.calls()))
    ins = [cs for cs in ab.calls(r'::add_seed$')]
    for i, cs in enumerate(ins):
        sc = L.success_conds(ab, cs.bb, r'::check_join_allowed$')
        ctx.ob('GATE', 'add_peer:cache-insert#%d' % i, bool(sc), cs.where(),
               'bootstrap cache insert is%s dominated by the Ok edge of check_join_allowed' % ('' if sc else ' NOT'))
    ctx.floor('GATE', 2)
    # listener: registration under check_ip Ok
    found = 0
    for b in prog.bodies.containing('register_new_peer', 'accept_any'):
        for cs in b.calls(r'::register_new_peer$'):
            found += 1
            sc = L.success_conds(b, cs.bb, r'RateLimiter::check_ip$')
            ctx.ob('GATE', 'listener:register@%s' % b.root, bool(sc), cs.where(),
                   'accepted connection is registered%s under the Ok verdict of RateLimiter::check_ip' % ('' if sc else ' NOT'))
    if not found:
        ctx.ob('GATE', 'listener:register', False, '-', 'accept loop calling register_new_peer not found (anchor)')
    ci = prog.body('validation::RateLimiter::check_ip')
    succ = [bb for bb, _ in L.success_returns(ci)]
    for name, rx in (('global', r'try_consume_global$'), ('key', r'try_consume_key$')):
        okc = bool(succ) and all(L.success_conds(ci, bb, rx) for bb in succ)
        ctx.ob('GATE', 'check_ip:%s' % name, okc, ci.where(), 'check_ip returns Ok only under the true verdict of %s: %s' % (rx, okc))

    # ---- 4. key isolation
    for fid in [i for i in prog.bodies.keys() if i.startswith('rate_limit::Engine::<K>::try_consume_key')]:
        b = prog.bodies[fid]
        ctx.touch(b)
        gm = b.calls(r'LruCache::<.*>::get_mut$')
        pt = b.calls(r'LruCache::<.*>::put$')
        okk = bool(gm) and bool(pt) and all(b.expr(c.args[1]).strip().show() == 'key' for c in gm) and all('key' in b.expr(c.args[1]).show() for c in pt)
        ctx.ob('KEY', 'try_consume_key', okk, b.where(), 'bucket looked up and inserted under the `key` parameter: %s' % okk)
    ctx.floor('KEY', 1)

    # ---- 5. get-or-insert-and-consume is one critical section
    # A key's budget lives in one Bucket in the map. If the lookup, the creation of a missing bucket, the consumption and
    # the insertion are not under one guard of the map lock, two concurrent first requests for a key each build and
    # consume their own full bucket (and the later insert overwrites a drained one): the limit is exceeded.
    for fid in [i for i in prog.bodies.keys() if re.match(r'rate_limit::Engine::<K>::try_consume_(key|global)$', i)]:
        b = prog.bodies[fid]
        acqs = [c for c in b.calls(L.LOCK_ACQ)]
        gs = L.guards(b)
        work = b.calls(r'rate_limit::Bucket::try_consume$') + b.calls(r'LruCache::<.*>::(put|push|get_mut|get|get_or_insert_mut|get_or_insert)$')
        one = len(acqs) == 1 and len(gs) == 1
        inside = False
        why = '%d acquisitions of the limiter lock' % len(acqs)
        if one:
            g = gs[0]
            inside = bool(work)
            for w in work:
                okw, whyw = L.atomic_section(b, g, g.def_bb, w.bb)
                if not okw:
                    inside = False
                    why = '%s (line %s) is outside the guard: %s' % (w.short(), w.ln, whyw)
            if inside:
                why = 'one write guard covers %d lookup / consume / insert calls' % len(work)
        ctx.ob('ATOMIC', 'one-section:%s' % fid.rsplit('::', 1)[-1], one and inside, b.where(),
               ('%s: %s' % (fid.rsplit('::', 1)[-1], why)) if (one and inside) else
               ('%s: lookup, consumption and insertion of a bucket are not one critical section (%s): concurrent first requests for one key '
                'are each admitted against their own fresh bucket' % (fid.rsplit('::', 1)[-1], why)), entry=fid)
    ctx.floor('ATOMIC', 2)
    # nobody else touches the bucket stores: a clear / pop / replacement of a bucket outside the two consume functions
    # hands a key a fresh budget inside its window
    nst = 0
    for b in prog.bodies.in_files(['src/rate_limit.rs']):
        for c in b.calls(L.LOCK_ACQ):
            e = b.expr(c.args[0]).strip()
            if not (e.k == 'field' and e.b in ('rate_limit::Engine::keyed', 'rate_limit::Engine::global')):
                continue
            nst += 1
            okw = re.match(r'rate_limit::Engine::<K>::try_consume_(key|global)$', b.root) is not None
            mode = c.short()
            n = sum(1 for o in ctx.obls if o.key.startswith('store-access:%s' % b.root))
            if okw:
                continue
            ctx.ob('ATOMIC', 'store-access:%s#%d' % (b.root, n), mode == 'read', c.where(),
                   '%s takes the %s lock of the bucket store %s' % (b.root, mode, e.b.rsplit('::', 1)[-1]) +
                   ('' if mode == 'read' else ': only try_consume_key / try_consume_global may change bucket state'), entry=b.root)
    ctx.ob('ATOMIC', 'store-access-closed', nst >= 2, 'src/rate_limit.rs', '%d acquisitions of the bucket-store locks examined' % nst)
