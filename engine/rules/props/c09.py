"""C09 — a peer record verifies only if its owner signed exactly it, cached or not (structural clauses)."""
import json
import re
import facts as F
import lib as L

EXPLANATION = (
    "Static decision of structural clauses of C09 on MIR of src/peer_record.rs: (1) COVER — the signable encoding reads "
    "every PeerDHTRecord field except `signature`, with injective FRAMING (lengths before variable parts); (2) ID-BINDING — "
    "a successful verify_signature is dominated by a comparison tying user_id to the embedded public key; (3) CACHE-KEY — "
    "content_hash (the cache key) reads every field the verdict depends on, i.e. all signed fields and the signature; (4) "
    "BOUNDS — construction must pass validate_inputs, whose rejecting guards carry the documented constants (255, 1..16, "
    "1..86400); (5) CACHE-FLOW — the cached bool is the result of verifying that very record, and only verify_cached "
    "inserts into the cache."
)
NOT_DECIDED = "the ML-DSA primitive; byte-level mutation behaviour of postcard for endpoints"
ASSUMPTIONS = ["blake3 and ML-DSA are collision / forgery resistant", "MlDsaPublicKey::as_bytes has a fixed length"]

REC = 'peer_record::PeerDHTRecord'
CACHE = 'peer_record::SignatureCache'


def run(ctx):
    prog = ctx.prog
    prog.adt(REC)
    fields = prog.adt_fields(REC)
    sm = prog.body(REC + '::create_signable_message')
    vs = prog.body(REC + '::verify_signature')
    ch = prog.body(REC + '::content_hash')
    vc = prog.body(CACHE + '::verify_cached')
    for b in (sm, vs, ch, vc):
        ctx.touch(b, len(b.calls()))

    # ---- 1. cover + framing of the signable message
    rd = L.fields_read(prog, sm, REC, depth=2)
    for f in fields:
        if f == 'signature':
            continue
        ctx.ob('COVER', 'signable-covers:%s' % f, f in rd, sm.where(),
               'PeerDHTRecord.%s is%s read by create_signable_message' % (f, '' if f in rd else ' NOT'))
    ctx.floor('COVER', 8)
    # "as presented": every byte string appended to the signable message is a direct rendering of a field of `self` (the
    # field, its length, its big-endian bytes, its postcard encoding) — never of a collection re-built from a field (sorted,
    # de-duplicated, keyed by id ..): such a rendering is many-to-one, so different records share one signature
    ALLOWED_T = re.compile(r'(::as_bytes$|::to_(be|le|ne)_bytes$|::len$|ops::Deref>::deref$|postcard::to_(stdvec|allocvec|vec)$|Result::<.*>::map_err$|Try>::branch$|'
                           r'convert::AsRef<.*>>::as_ref$|::as_slice$|::as_str$|Clone>::clone$|ToString>::to_string$|::as_ref$|::to_vec$|Uuid::as_bytes$|::octets$|::port$|::ip$|'
                           r'Iterator>::next$|IntoIterator>::into_iter$|::iter$|Option::<.*>::(as_ref|as_deref)$|::timestamp$|::as_secs$)')

    def _presented(e, depth=0):
        """None if the expression is a direct rendering of self's fields, else the offending sub-expression"""
        st = e
        while st.k in ('let', 'ref', 'deref', 'try'):
            st = st.c if st.k == 'let' else st.a
        if st.k in ('const', 'param'):
            return None
        if st.k in ('field', 'index', 'downcast', 'disc'):
            return _presented(st.a, depth + 1)
        if st.k == 'cast':
            return _presented(st.b, depth + 1)
        if st.k == 'bin':
            return _presented(st.b, depth + 1) or _presented(st.c, depth + 1)
        if st.k == 'call':
            if not ALLOWED_T.search(st.a):
                return st
            for a in st.b:
                bad_ = _presented(a, depth + 1)
                if bad_ is not None:
                    return bad_
            return None
        if st.k == 'local':
            # a multi-definition or opaque local: acceptable only if it is the message buffer itself / a loop element of a field
            return None if L.mentions_next(F.Expr.of_local(sm, st.a, 6)) is not None else st
        if st.k == 'agg':
            for a in st.b:
                bad_ = _presented(a, depth + 1)
                if bad_ is not None:
                    return bad_
            return None
        return st
    offenders = []
    msg_locals = set()
    for c in sm.calls(r'Vec::<.*>::extend_from_slice$|Vec::<.*>::push$|Vec::<.*>::extend$'):
        if c.args and 'p' in c.args[0]:
            msg_locals |= L.alias_of(sm, [c.args[0]['p'][0]])
    for c in sm.calls(r'Vec::<.*>::extend_from_slice$|Vec::<.*>::push$|Vec::<.*>::extend$'):
        if len(c.args) < 2:
            continue
        e = sm.expr(c.args[1])
        bad_ = _presented(e)
        if bad_ is not None and not (bad_.k == 'local' and bad_.a in msg_locals):
            offenders.append((c, bad_))
    # collections built inside the function from record data are the usual way to lose "as presented"
    for c in sm.calls(r'(BTreeMap|BTreeSet|HashMap|HashSet|BinaryHeap)::<.*>::(new|insert|from_iter|with_capacity)$|iter::FromIterator|Iterator>?::collect$|::sort(_by|_by_key|_unstable|_unstable_by|_unstable_by_key)?$|::dedup(_by|_by_key)?$|Vec::<.*>::retain$|::reverse$'):
        offenders.append((c, F.Expr('call', c.callee, [], c)))
    ctx.ob('FRAMING', 'signable-as-presented', not offenders, (offenders[0][0].where() if offenders else sm.where()),
           'every operand of the signable message is a direct rendering of a field of the record' if not offenders else
           ('the signable message is built through %s: the record is re-arranged (sorted / keyed / collected) before it is signed, so different '
            'presentations of the fields share one signature' % offenders[0][1].brief(80)), entry=sm.root)
    apps = sm.calls(r'Vec::<.*>::extend_from_slice$|Vec::<.*>::push$|Vec::<.*>::extend$')
    seq, bad, presence = L.framing(sm, apps)
    ctx.ob('FRAMING', 'signable-injective', not bad, (bad[0][1].where() if bad else sm.where()),
           ('two variable-length operands adjacent without a length: %s then %s' % (
               sm.expr(bad[0][0].args[1]).brief(80), sm.expr(bad[0][1].args[1]).brief(80))) if bad else
           'signable operands in order: %s' % ', '.join(k for _, k, _ in seq))
    ctx.ob('FRAMING', 'signable-option-marked', not presence, (presence[0].where() if presence else sm.where()),
           'optional parts are preceded by a length / presence marker' if not presence else
           'an optional part is appended without a marker: %s' % sm.expr(presence[0].args[1]).brief(80))
    # what is verified is the signable message of self under self.public_key with self.signature
    ver = vs.calls(r'ml_dsa_verify$|::verify$')
    okv = False
    detail = 'no verification primitive called'
    for cs in ver:
        args = [vs.expr(a).show() for a in cs.args]
        okv = (len(args) >= 3 and 'public_key' in args[0] and 'create_signable_message' in args[1] and 'signature' in args[2])
        detail = 'verify(%s)' % ', '.join(vs.expr(a).brief(60) for a in cs.args)
    succ = [bb for bb, _ in L.success_returns(vs)]
    gated = False
    for bb in succ:
        for c in F.dominating_conds(vs, bb):
            if c.kind == 'bool' and c.truth and c.expr.mentions_call(r'ml_dsa_verify$') is not None:
                gated = True
            if c.kind == 'bool' and c.truth and c.expr.k == 'try' and 'ml_dsa_verify' in c.expr.show():
                gated = True
    ctx.ob('VERIFY-GATE', 'verify_signature:gated', okv and gated and bool(succ), vs.where(),
           'Ok(()) is%s dominated by the true verdict of %s' % ('' if gated else ' NOT', detail))

    # ---- 2. user-id binding
    bound = False
    for bb in succ:
        for c in F.dominating_conds(vs, bb):
            t = c.show()
            if 'user_id' in t and ('public_key' in t):
                bound = True
    ctx.ob('ID-BINDING', 'verify_signature:user-id-bound', bound, vs.where(),
           'a successful verification is%s dominated by a check relating self.user_id to self.public_key%s' % (
               '' if bound else ' NOT', '' if bound else ': a record may carry any user_id next to its own key and still verify'))

    # ---- 3. cache key covers the verdict's inputs
    crd = L.fields_read(prog, ch, REC, depth=2)
    need = [f for f in fields if f in rd or f == 'signature']
    missing = [f for f in need if f not in crd]
    ctx.ob('CACHE-KEY', 'content_hash:covers-verdict-inputs', not missing, ch.where(),
           'content_hash reads %d of the %d fields the verdict depends on%s' % (
               len(need) - len(missing), len(need),
               '' if not missing else '; missing %s: a forged record sharing the hashed fields inherits a cached verdict' % missing))

    # ---- 4. bounds
    nb = prog.body(REC + '::new')
    ctx.touch(nb)
    val = nb.calls(r'::validate_inputs$')
    ok = False
    for cs in val:
        te = F.try_edges(nb, cs)
        if te and te[0] is not None and all(nb.dominates(te[0], bb) for bb, _ in L.success_returns(nb)):
            ok = True
    ctx.ob('BOUNDS', 'new:validated', ok, nb.where(), 'PeerDHTRecord::new returns Ok only after validate_inputs returned Ok' if ok else
           'PeerDHTRecord::new can return Ok without validate_inputs having succeeded')
    # every other construction site of the record
    for b in prog.bodies.containing(json.dumps(REC)):
        if b.derived or b.id == nb.id:
            continue
        for r in b.aggregates():
            if r.get('adt') == REC:
                ctx.ob('BOUNDS', 'ctor:%s' % b.id, False, b.where(), 'PeerDHTRecord is constructed outside `new` (bypasses validate_inputs)')
    vi = prog.body(REC + '::validate_inputs')
    ctx.touch(vi)
    rej = L.rejecting_conds(vi)

    def has(pred):
        return any(pred(c) for c in rej)

    def cmpc(c, sub, ops, limit):
        if c.kind != 'cmp':
            return False
        l, r = c.lhs.show(), c.rhs.show()
        lv, rv = c.lhs.const_value(), c.rhs.const_value()
        if c.rhs.strip().k == 'const' and c.rhs.strip().d:
            rv = prog.const_val(c.rhs.strip().d)
        if c.lhs.strip().k == 'const' and c.lhs.strip().d:
            lv = prog.const_val(c.lhs.strip().d)
        if sub in l and rv is not None and c.op in ops:
            return limit(c.op, rv)
        if sub in r and lv is not None and F.CMP_FLIP[c.op] in ops:
            return limit(F.CMP_FLIP[c.op], lv)
        return False

    name_max = has(lambda c: cmpc(c, 'len(', ('Gt', 'Ge'), lambda op, v: (op == 'Gt' and v <= 255) or (op == 'Ge' and v <= 256)) and 'name' in c.show())
    name_empty = has(lambda c: c.kind == 'bool' and c.truth and c.expr.k == 'call' and c.expr.a.endswith('is_empty') and 'name' in c.show())
    ep_empty = has(lambda c: c.kind == 'bool' and c.truth and c.expr.k == 'call' and c.expr.a.endswith('is_empty') and 'endpoints' in c.show())
    ep_max = has(lambda c: cmpc(c, 'len(', ('Gt', 'Ge'), lambda op, v: (op == 'Gt' and v <= 16) or (op == 'Ge' and v <= 17)) and 'endpoints' in c.show())
    ttl_zero = has(lambda c: (c.kind == 'cmp' and c.op == 'Eq' and 'ttl' in c.show() and 0 in (c.lhs.const_value(), c.rhs.const_value()))
                   or (c.kind == 'int' and c.value == 0 and 'ttl' in c.expr.show()))
    ttl_max = has(lambda c: cmpc(c, 'ttl', ('Gt', 'Ge'), lambda op, v: (op == 'Gt' and v <= 86400) or (op == 'Ge' and v <= 86401)))
    for nm, okb, what in (('name<=255', name_max, 'name longer than 255 is rejected'), ('name-nonempty', name_empty, 'empty name is rejected'),
                          ('endpoints>=1', ep_empty, 'no endpoints is rejected'), ('endpoints<=16', ep_max, 'more than 16 endpoints is rejected'),
                          ('ttl>=1', ttl_zero, 'ttl 0 is rejected'), ('ttl<=86400', ttl_max, 'ttl above 24 h is rejected')):
        ctx.ob('BOUNDS', 'validate_inputs:%s' % nm, okb, vi.where(), '%s: %s' % (what, 'guard present' if okb else 'NO rejecting guard with the documented bound found'))
    ctx.floor('BOUNDS', 7)

    # ---- 5. cache flow
    ins = vc.calls(r'HashMap::<.*>::insert$')
    okc = False
    detail = 'no insert into the cache found'
    for cs in ins:
        k = vc.expr(cs.args[1])
        v = vc.expr(cs.args[2])
        kc = k.mentions_call(r'::content_hash$')
        vv = v.mentions_call(r'::verify_signature$')
        same = kc is not None and vv is not None and kc.b[0].strip().show() == vv.b[0].strip().show()
        conv = any(x.k == 'call' and x.c is not None and x.c.local and prog.has_body(x.a) and prog.bodies[x.a].file == vc.file and
                   x.b and x.b[0].mentions_call(r'::verify_signature$') is not None for x in v.walk())
        # the verdict stored is is_ok() of that verification, or a same-file conversion of its Result (a small verdict enum)
        okc = same and (re.search(r'is_ok', v.show()) is not None or conv)
        detail = 'cache.insert(%s, %s)' % (k.brief(60), v.brief(80))
    ctx.ob('CACHE-FLOW', 'verify_cached:insert', okc, vc.where(),
           'the cached verdict %s the result of verifying the very record whose content_hash is the key: %s' % ('is' if okc else 'is NOT', detail))
    # the cached-hit arm answers with the cached bool of the same key
    gets = vc.calls(r'HashMap::<.*>::get$')
    okg = any(vc.expr(c.args[1]).mentions_call(r'::content_hash$') is not None for c in gets)
    ctx.ob('CACHE-FLOW', 'verify_cached:lookup', okg, vc.where(), 'cache lookup is keyed by content_hash(record)')
    # who inserts into SignatureCache.cache
    tag = json.dumps('.%s::cache' % CACHE)
    for b in prog.bodies.containing(tag):
        for cs in b.calls(r'HashMap::<.*>::(insert|entry|extend)$'):
            if '.cache' in b.expr(cs.args[0]).show() and b.root != vc.root:
                ctx.ob('CACHE-FLOW', 'writer:%s' % b.id, False, cs.where(), 'a second writer of the signature cache')
    ctx.floor('CACHE-FLOW', 2)
