"""C15 — close-group membership needs a Byzantine quorum; f liars cannot force it (shape of the verdict)."""
import json
import re
import facts as F
import lib as L

EXPLANATION = (
    "Static decision of the shape of the close-group verdict on MIR of close_group_validator.rs: (1) WHO-WRITES is_valid — "
    "initial value false; exactly one non-constant write per mode, a `>=` of the confirmation ratio against bft_threshold (BFT) "
    "/ trust_weighted_threshold (normal); every other write is the constant false (weakening only); (2) RATIO — BFT ratio = "
    "count(confirming among trusted) / len(trusted), trusted = responses with trust (unknown = 0) >= min_witness_trust, and the "
    "comparison is dominated by len(trusted) >= min_peers_to_query; normal ratio = confirming weight / total weight with every "
    "response in the total and only confirming ones in the numerator; (3) GATES in validate_membership — both mode calls are "
    "dominated by responses >= min_peers_to_query and by the candidate-trust gate, the BFT call by is_attack_mode() true and the "
    "normal call by false; collusion and (BFT) region shortage only ever store false; (4) TABLE — default bft_threshold > 1/3 "
    "and derived threshold (2f+1)/(3f+1), default min_witness_trust 0.3, trust_weighted_threshold 0.7."
    ' Region rules are name-free: the region count is the value published in CloseGroupValidationResult.confirming_regions; it is compared with min_regions in attack mode, counted over confirming responses only, and only over Some(region) values (no default label for witnesses without region information).'
)
NOT_DECIDED = "the exhaustive witness grid; numeric edge cases of the float ratio; that regions are counted over trusted witnesses only"
ASSUMPTIONS = ["f64 division and comparison behave as IEEE-754 (NaN compares false, i.e. rejects)"]

RES = 'dht::routing_maintenance::close_group_validator::CloseGroupValidationResult'
VAL = 'dht::routing_maintenance::close_group_validator::CloseGroupValidator'
CFG = 'dht::routing_maintenance::close_group_validator::CloseGroupValidatorConfig'


def stored_value(body, bb, place, before_stmt=None):
    """the rvalue last stored into exactly `place` on the way to block bb (unique dominating store)"""
    cands = []
    for bi, si, s in body.stmts():
        if s['d'] == place:
            if bi == bb and before_stmt is not None and si >= before_stmt:
                continue
            if bi == bb or body.dominates(bi, bb):
                cands.append((bi, si, s))
    if not cands:
        return None
    # innermost = the one dominated by all the others
    cands.sort(key=lambda c: (len(body.dom_chain(c[0])), c[1]))
    return cands[-1]


def run(ctx):
    prog = ctx.prog
    prog.adt(RES)
    vm = prog.body(VAL + '::validate_membership')
    ctx.touch(vm, len(vm.calls()))
    writes = L.field_writes(prog, RES, 'is_valid')
    nonconst = []
    for b, bi, kind, th in writes:
        ctx.touch(b)
        if b.derived:
            continue
        if kind == 'aggregate':
            op = L.agg_field_operand(th, 'is_valid')
            okc = op is not None and op.get('v') == '0'
            ctx.ob('WHO-WRITES', 'init:%s' % b.id, okc, b.where(th.get('ln')), 'CloseGroupValidationResult constructed with is_valid = %s' % (op.get('c') if op else '?'))
            continue
        if kind != 'assign':
            ctx.ob('WHO-WRITES', '%s:%s' % (kind, b.id), False, b.where(), 'is_valid escapes by %s in %s' % (kind, b.id))
            continue
        r = th['r']
        if r['k'] == 'use' and 'v' in r['o']:
            v = r['o']['v']
            n = sum(1 for o in ctx.obls if o.key.startswith('const-write:%s' % b.id))
            ctx.ob('WHO-WRITES', 'const-write:%s#%d' % (b.id, n), v == '0', b.where(th.get('ln')),
                   'constant store is_valid = %s in %s (only `false` may be stored after the comparison)' % ('true' if v != '0' else 'false', b.id))
        else:
            nonconst.append((b, bi, th))
    ctx.floor('WHO-WRITES', 4)

    modes = {}
    for b, bi, th in nonconst:
        e = F.Expr.of_rvalue(b, th['r'], 30)
        fld = None
        okshape = False
        if e.k == 'bin' and e.a == 'Ge':
            rt = e.c.strip().show()
            if rt.endswith('.config.bft_threshold'):
                fld = 'bft'
            elif rt.endswith('.config.trust_weighted_threshold'):
                fld = 'normal'
            okshape = fld is not None
        elif e.k == 'bin' and e.a == 'Le':
            lt = e.b.strip().show()
            if lt.endswith('.config.bft_threshold'):
                fld = 'bft'
            elif lt.endswith('.config.trust_weighted_threshold'):
                fld = 'normal'
            okshape = fld is not None
        key = 'verdict:%s' % b.id
        ctx.ob('WHO-WRITES', key, okshape and fld not in modes, b.where(th.get('ln')),
               'non-constant store is_valid = %s in %s (%s)' % (e.brief(120), b.id, 'threshold comparison for mode ' + str(fld) if okshape else 'NOT a >= comparison against a configured threshold'))
        if okshape:
            modes[fld] = (b, bi, th, e)
    for m in ('bft', 'normal'):
        if m not in modes:
            ctx.ob('WHO-WRITES', 'verdict-mode:%s' % m, False, '-', 'no threshold comparison found for mode %s' % m)

    # ---- 2. ratio shape, BFT
    if 'bft' in modes:
        b, bi, th, e = modes['bft']
        lhs = e.b if e.a == 'Ge' else e.c
        # the compared value is result.confirmation_ratio: find what was stored there
        ratio = lhs
        fe = lhs.strip()
        if fe.k == 'field':
            # locate the load statement's place
            place = None
            for bj, sj, s in b.stmts():
                if s['r']['k'] == 'use' and 'p' in s['r']['o'] and str(s['r']['o']['p'][-1]).endswith('::confirmation_ratio') and bj == bi:
                    place = s['r']['o']['p']
            sv = stored_value(b, bi, place) if place else None
            if sv is not None:
                ratio = F.Expr.of_rvalue(b, sv[2]['r'], 30)
        okr = False
        detail = ratio.brief(200)
        trusted_ok = mingate = False
        if fe.k == 'field' and place:
            nst = sum(1 for _bj, _sj, _s in b.stmts() if _s['d'] == place)
            ctx.ob('RATIO', 'bft:ratio-single-store', nst == 1, b.where(th.get('ln')),
                   'the value compared with bft_threshold is stored %d time(s) in %s (exactly one store = the ratio)' % (nst, b.id))
        if ratio.k == 'bin' and ratio.a == 'Div':
            num, den = ratio.b, ratio.c
            cnt = num.mentions_call(r'Iterator>::count$|Iterator::count$')
            if cnt is None:
                # equivalent form: the confirming witnesses are collected once and `.len()` is the numerator
                nl = num.mentions_call(r'Vec::<.*>::len$|<impl \[T\]>::len$')
                if nl is not None:
                    for x in nl.walk():
                        if x.k == 'let' and x.c.mentions_call(r'Iterator::filter$|Iterator>::filter$') is not None \
                                and x.c.mentions_call(r'Iterator::collect$|Iterator>::collect$') is not None:
                            cnt = x.c
                            break
            ln = den.mentions_call(r'Vec::<.*>::len$|<impl \[T\]>::len$')
            if cnt is not None and ln is not None:
                # both over the same collected vector
                vec_num = [x for x in cnt.walk() if x.k == 'let']
                vec_den = [x for x in ln.walk() if x.k == 'let']
                same = bool(vec_num) and bool(vec_den) and vec_num[0].a == vec_den[0].a
                # the counting predicate reads confirms_membership
                pred = None
                for x in cnt.walk():
                    if x.k == 'agg' and x.d == 'closure':
                        pred = x.a
                pb = prog.bodies.get(pred) if pred else None
                reads_conf = pb is not None and any('confirms_membership' in json.dumps(s) for _, _, s in pb.stmts())
                okr = same and reads_conf
                # trusted vector = collect(filter(iter(responses), |r| trust.unwrap_or(0) >= min_witness_trust))
                if vec_den:
                    tv = vec_den[0].c
                    flt = tv.mentions_call(r'Iterator::filter$|Iterator>::filter$')
                    if flt is not None:
                        clos = [x for x in flt.walk() if x.k == 'agg' and x.d == 'closure']
                        if clos:
                            cb = prog.bodies.get(clos[0].a)
                            if cb is not None:
                                ctx.touch(cb)
                                for d in cb.defs().get(0, []):
                                    if d[0] == 's':
                                        ce = F.Expr.of_rvalue(cb, d[3]['r'], 20)
                                        if ce.k == 'bin' and ce.a == 'Le' and ce.b.strip().show().endswith('.config.min_witness_trust'):
                                            ce = F.Expr('bin', 'Ge', ce.c, ce.b)
                                        if ce.k == 'bin' and ce.a == 'Ge' and ce.c.strip().show().endswith('.config.min_witness_trust'):
                                            uo = ce.b.mentions_call(r'Option::<.*>::unwrap_or$')
                                            dv = uo.b[1].const_value() if uo is not None and len(uo.b) > 1 else None
                                            trusted_ok = ('peer_trust_score' in ce.b.show()) and dv is not None and dv <= 0.0
                    # comparison dominated by len(trusted) >= min_peers_to_query
                    tl = vec_den[0].a
                    for c in F.dominating_conds(b, bi):
                        if L.cmp_is(c, lambda e: any(x.k == 'let' and x.a == tl for x in e.walk()) and 'len(' in e.show(), 'Ge',
                                    L.ends('.config.min_peers_to_query')):
                            mingate = True
        ctx.ob('RATIO', 'bft:ratio', okr, b.where(th.get('ln')),
               'BFT ratio is count(confirming among trusted)/len(trusted): %s [%s]' % (okr, detail))
        ctx.ob('RATIO', 'bft:trusted-filter', trusted_ok, b.where(),
               'trusted witnesses = those with peer_trust_score.unwrap_or(<=0) >= min_witness_trust: %s' % trusted_ok)
        ctx.ob('RATIO', 'bft:min-trusted', mingate, b.where(),
               'the BFT comparison is dominated by len(trusted) >= min_peers_to_query: %s' % mingate)
        # collusion: a const-false store under detect_collusion_indicators(..) true
        col = False
        for bb2, bi2, kind, th2 in writes:
            if bb2.id == b.id and kind == 'assign' and th2['r']['k'] == 'use' and th2['r']['o'].get('v') == '0':
                if L.success_conds(b, bi2, r'::detect_collusion_indicators$'):
                    col = True
        ctx.ob('RATIO', 'bft:collusion-hard-failure', col, b.where(), 'a raised collusion flag stores is_valid = false: %s' % col)
        # the collusion heuristic looks at every trusted witness (the vector the ratio is taken over), not at a
        # subset: otherwise turning a confirmation into a denial can remove a witness from the heuristic and turn a
        # rejection into an acceptance
        dci = b.calls(r'::detect_collusion_indicators$')
        okin = bool(dci)
        why = 'detect_collusion_indicators is not called in the BFT verdict' if not dci else ''
        den_vec = None
        if ratio.k == 'bin' and ratio.a == 'Div':
            dl = ratio.c.mentions_call(r'Vec::<.*>::len$|<impl \[T\]>::len$')
            dv = [x for x in dl.walk() if x.k == 'let'] if dl is not None else []
            den_vec = dv[0].a if dv else None
        for c in dci:
            arg = b.expr(c.args[1])
            al = [x.a for x in arg.walk() if x.k == 'let']
            if den_vec is None or not al or al[0] != den_vec:
                okin = False
                why = 'argument %s is not the trusted-witness vector the ratio is taken over' % arg.brief(80)
        ctx.ob('RATIO', 'bft:collusion-input', okin, (dci[0].where() if dci else b.where()),
               'the collusion heuristic is given the whole trusted set: %s%s' % (okin, (' — ' + why) if why else ''))
    # ---- ratio shape, normal
    if 'normal' in modes:
        b0, bi0, th, e = modes['normal']
        # the verdict body with its private helpers spliced in (a tally struct / accumulate helper changes nothing)
        b = prog.inl(b0.root)
        wtag = None
        stored = set()
        for bj, sj, s in b.stmts():
            if s['r']['k'] == 'use' and 'p' in s['r']['o'] and str(s['r']['o']['p'][-1]).endswith('::weighted_confirmation'):
                wtag = s['r']['o']['p'][-1]
        for bj, sj, s in b.stmts():
            if wtag and s['d'][-1:] == [wtag] and 'p' in s['r'].get('o', {}):
                stored.add(s['r']['o']['p'][0])

        def acc_key(pl, depth=8):
            """the accumulator behind an operand place: (local, None) for a plain local (through copies), (local, field) for a
            field of a struct local that is updated in place (`tally.total += w`), following moves of the struct"""
            l = pl[0]
            rest = [p for p in pl[1:] if p != '*']
            while depth > 0:
                depth -= 1
                if not rest:
                    sd = b.single_def(l)
                    if b.local_name(l) is None and sd is not None and sd[0] == 's' and sd[3]['r']['k'] == 'use' and 'p' in sd[3]['r']['o']:
                        npl = sd[3]['r']['o']['p']
                        l, rest = npl[0], [p for p in npl[1:] if p != '*'] + rest
                        continue
                    return (l, None)
                fname = rest[0].rsplit('::', 1)[-1]
                # follow whole-struct moves back to the local the struct was built / updated in
                holder = l
                moved = True
                hops = 0
                while moved and hops < 8:
                    moved = False
                    hops += 1
                    ds = [d for d in b.defs().get(holder, []) if d[0] == 's']
                    uses = [d for d in ds if d[3]['r']['k'] == 'use' and 'p' in d[3]['r']['o'] and len(d[3]['r']['o']['p']) == 1]
                    if ds and len(uses) == len(ds) and len(set(d[3]['r']['o']['p'][0] for d in uses)) == 1:
                        holder = uses[0][3]['r']['o']['p'][0]
                        moved = True
                aggs = [d for d in b.defs().get(holder, []) if d[0] == 's' and d[3]['r']['k'] == 'agg']
                if aggs and len(rest) == 1:
                    r = aggs[0][3]['r']
                    op = None
                    if r.get('fields') and fname in r['fields']:
                        op = r['ops'][r['fields'].index(fname)]
                    elif r.get('ak') == 'tuple' and fname.isdigit() and int(fname) < len(r['ops']):
                        op = r['ops'][int(fname)]
                    if op is not None and 'p' in op:
                        l, rest = op['p'][0], [p for p in op['p'][1:] if p != '*']
                        continue
                    return (holder, fname)
                return (holder, fname)
            return (l, None)
        num_l = den_l = None
        for bj, sj, s in b.stmts():
            if s['r']['k'] == 'bin' and s['r']['op'] == 'Div' and len(s['d']) == 1 and s['d'][0] in stored:
                a_, c_ = s['r']['a'], s['r']['b']
                if 'p' in a_ and 'p' in c_:
                    num_l, den_l = acc_key(a_['p']), acc_key(c_['p'])
        okn = False
        detail = 'numerator/denominator accumulators not found'
        if num_l is not None and den_l is not None and num_l != den_l:
            def adds(key):
                l, fld = key
                out = []
                if fld is None:
                    for d in b.defs().get(l, []):
                        if d[0] == 's':
                            ve = F.Expr.of_rvalue(b, d[3]['r'], 6)
                            if ve.k == 'bin' and ve.a == 'Add':
                                out.append((d[1], ve))
                else:
                    for bj_, sj_, s_ in b.stmts():
                        d_ = s_['d']
                        if d_[0] == l and len(d_) > 1 and str(d_[-1]).rsplit('::', 1)[-1] == fld:
                            ve = F.Expr.of_rvalue(b, s_['r'], 6)
                            if ve.k == 'bin' and ve.a == 'Add':
                                out.append((bj_, ve))
                return out
            na, da = adds(num_l), adds(den_l)
            num_g = bool(na) and all(any(c.kind == 'bool' and c.truth and c.expr.show().endswith('confirms_membership') for c in F.dominating_conds(b, bb)) for bb, _ in na)
            den_all = bool(da) and not any(any(c.kind == 'bool' and c.expr.show().endswith('confirms_membership') for c in F.dominating_conds(b, bb)) for bb, _ in da)
            same_w = bool(na) and bool(da) and na[0][1].c.strip().show() == da[0][1].c.strip().show()
            okn = num_g and den_all and same_w
            detail = 'numerator += weight only when confirms_membership: %s; denominator += weight for every response: %s; same weight (%s): %s' % (
                num_g, den_all, da[0][1].c.brief(60) if da else '?', same_w)
        ctx.ob('RATIO', 'normal:weighted-ratio', okn, b.where(th.get('ln')), detail)
    ctx.floor('RATIO', 5)

    # ---- 3. gates in validate_membership
    for name, rx in (('bft', r'::validate_bft$'), ('normal', r'::validate_trust_weighted$')):
        cs = vm.calls(rx)
        if not cs:
            ctx.ob('GATE', 'membership:%s-call' % name, False, vm.where(), 'validate_membership does not call the %s verdict function' % name)
            continue
        c0 = cs[0]
        conds = F.dominating_conds(vm, c0.bb)
        minresp = any(L.cmp_is(c, L.has('len(', 'responses'), 'Ge', L.ends('.config.min_peers_to_query')) for c in conds)
        # the candidate-trust gate, in any spelling (is_some_and / match with a guard / if let + comparison): every path to the
        # verdict call crosses an edge on which `trust < min_witness_trust` is known to be false — the false edge of that
        # comparison, the false edge of `is_some_and(|t| t < min)`, or the None arm of the candidate's Option<f64> score
        opt_params = [i for i in range(1, vm.argc + 1) if vm.local_ty(i).replace(' ', '') in ('std::option::Option<f64>', 'Option<f64>')]
        neg_edges = set()
        for n_, e_ in vm.edge_nodes().items():
            cd_ = F.edge_cond(vm, e_)
            if cd_.kind == 'cmp' and L.cmp_is(cd_, lambda ee: True, 'Ge', L.ends('.config.min_witness_trust')):
                neg_edges.add(n_)
            elif cd_.kind == 'bool' and not cd_.truth:
                m_ = cd_.expr.mentions_call(r'Option::<.*>::is_some_and$')
                if m_ is not None:
                    for x_ in m_.walk():
                        if x_.k == 'agg' and x_.d == 'closure' and x_.a in prog.bodies:
                            if any(L.atom_is_cmp(ce_, lambda ee: True, 'Lt', L.ends('.config.min_witness_trust')) for _cb, ce_ in L.closure_results(prog, x_.a)):
                                neg_edges.add(n_)
            elif cd_.kind == 'disc' and cd_.variant_is(0) and cd_.expr is not None:
                st_ = cd_.expr.strip()
                if st_.k == 'param' and st_.a in opt_params:
                    neg_edges.add(n_)
        trust_ok = bool(neg_edges) and L.must_pass(vm, [0], neg_edges, [c0.bb])[0]
        mode = [c for c in conds if c.kind == 'bool' and c.expr.mentions_call(r'::is_attack_mode$') is not None]
        mode_ok = bool(mode) and mode[0].truth == (name == 'bft')
        ctx.ob('GATE', 'membership:%s:min-responses' % name, minresp, c0.where(), 'the %s verdict runs only with responses.len() >= min_peers_to_query: %s' % (name, minresp))
        ctx.ob('GATE', 'membership:%s:candidate-trust' % name, trust_ok, c0.where(), 'the %s verdict runs only if the candidate trust is not below min_witness_trust: %s' % (name, trust_ok))
        ctx.ob('GATE', 'membership:%s:mode' % name, mode_ok, c0.where(), 'the %s verdict is selected by is_attack_mode() == %s: %s' % (name, name == 'bft', mode_ok))
    # region shortage in BFT mode stores false. The region count is identified by what it is (the value published in the
    # result's public `confirming_regions` field), not by the name of the helper that computes it.
    rtag = '.%s::confirming_regions' % RES
    rlocals = set()
    rtexts = set()
    counter_fn = None
    for bi_, si_, s_ in vm.stmts():
        if rtag in s_['d'][1:] and 'p' in s_['r'].get('o', {}):
            rlocals |= L.alias_of(vm, [s_['r']['o']['p'][0]])
            re_ = vm.expr(s_['r']['o'])
            rtexts.add(re_.strip().show())
            for x_ in re_.walk():
                if x_.k == 'call' and x_.c is not None and x_.c.local and prog.has_body(x_.a) and counter_fn is None:
                    counter_fn = x_.a
    reg = False
    for bb2, bi2, kind, th2 in writes:
        if bb2.id == vm.id and kind == 'assign' and th2['r']['k'] == 'use' and th2['r']['o'].get('v') == '0':
            conds = F.dominating_conds(vm, bi2)
            r1 = any(L.cmp_is(c, lambda e: L.touches(vm, e, rlocals) or e.strip().show() in rtexts or (counter_fn is not None and e.mentions_call(re.escape(counter_fn) + '$') is not None),
                              'Lt', L.ends('.config.min_regions')) for c in conds)
            r2 = any(c.kind == 'bool' and c.truth and c.expr.mentions_call(r'::is_attack_mode$') is not None for c in conds)
            reg = reg or (r1 and r2)
    ctx.ob('GATE', 'membership:regions-hard-in-bft', reg and bool(rlocals), vm.where(), 'confirming_regions < min_regions in attack mode stores is_valid = false: %s' % reg)
    cr = prog.body(counter_fn) if counter_fn else vm
    fam = [prog.bodies[i] for i in prog.family(cr.id)]
    okcr = False
    for fb_ in fam:
        if any('confirms_membership' in json.dumps(s_) for _, _, s_ in fb_.stmts()) or any(
                'confirms_membership' in json.dumps(t_) for _, t_ in fb_.terms()):
            okcr = True
    ctx.ob('GATE', 'regions:confirming-only', okcr and (counter_fn is not None or cr is vm), cr.where(), 'regions are counted over confirming responses only: %s' % okcr)
    # only a *known* region counts: a confirming witness without region information contributes nothing. A default label
    # (unwrap_or("unknown"), map_or, a helper that renders None as text) would count region-less confirmers as one more region.
    DEFAULTING = r'Option::<.*>::(unwrap_or|unwrap_or_else|unwrap_or_default|map_or|map_or_else|get_or_insert|get_or_insert_with)$'
    bad_default = None
    scan = list(fam)
    def add_scan(fid):
        if prog.has_body(fid) and fid != cr.id:
            for i_ in prog.family(fid):
                if prog.bodies[i_] not in scan:
                    scan.append(prog.bodies[i_])
    for fb_ in fam:
        for cs_ in fb_.calls():
            if cs_.local:
                add_scan(cs_.callee)
            # functions passed by name (`.map(CloseGroupResponse::region_label)`)
            for a_ in cs_.args:
                if isinstance(a_, dict) and 'fn' in a_:
                    add_scan(a_.get('r', a_['fn']))
        for _bi, _si, s_ in fb_.stmts():
            for o_ in F._rvalue_operands(s_['r']):
                if isinstance(o_, dict) and 'fn' in o_:
                    add_scan(o_.get('r', o_['fn']))
    for fb_ in scan:
        reads_region = any('peer_region' in json.dumps(s_) for _, _, s_ in fb_.stmts())
        for cs_ in fb_.calls(DEFAULTING):
            if cs_.args and ('peer_region' in fb_.expr(cs_.args[0]).show() or reads_region):
                bad_default = (fb_, cs_)
    ctx.ob('GATE', 'regions:known-regions-only', bad_default is None, (bad_default[1].where() if bad_default else cr.where()),
           'the region count only sees Some(region) values (no default label for witnesses without region information)' if bad_default is None else
           '%s gives a witness without region information a default value (%s): region-less confirmers count as one more region, so the '
           'diversity requirement can be met with fewer real regions' % (bad_default[0].id.rsplit('::', 1)[-1], bad_default[1].short()), entry=cr.id)
    ctx.floor('GATE', 9)

    # ---- 4. table
    db = prog.bodies.get('<%s as std::default::Default>::default' % CFG)
    if db is None:
        ctx.anchor_fail('TABLE', CFG + '::default')
    else:
        for bi, si, s in db.stmts():
            if s['r']['k'] == 'agg' and s['r'].get('adt') == CFG:
                vals = {f: db.expr(o).const_value() for f, o in zip(s['r']['fields'], s['r']['ops'])}
                okd = (vals.get('bft_threshold') is not None and vals['bft_threshold'] > 2.0 / 3.0 and vals.get('min_witness_trust') == 0.3
                       and vals.get('trust_weighted_threshold') == 0.7 and vals.get('min_peers_to_query', 0) >= 1)
                ctx.ob('TABLE', 'defaults', okd, db.where(s.get('ln')),
                       'defaults: bft_threshold=%s (> 2/3 needed for 3f+1), trust_weighted_threshold=%s, min_witness_trust=%s, min_peers_to_query=%s' % (
                           vals.get('bft_threshold'), vals.get('trust_weighted_threshold'), vals.get('min_witness_trust'), vals.get('min_peers_to_query')))
    fm = prog.body(CFG + '::from_maintenance_config')
    okm = False
    for bi, si, s in fm.stmts():
        if s['r']['k'] == 'agg' and s['r'].get('adt') == CFG:
            op = L.agg_field_operand(s, 'bft_threshold')
            e = fm.expr(op) if op else None
            if e is not None:
                okm = (e.k == 'bin' and e.a == 'Div' and e.b.mentions_call(r'::required_confirmations$') is not None
                       and e.c.mentions_call(r'::minimum_witnesses$') is not None)
    rc = prog.body('dht::routing_maintenance::config::MaintenanceConfig::required_confirmations')
    mw = prog.body('dht::routing_maintenance::config::MaintenanceConfig::minimum_witnesses')

    def lin(b):
        for d in b.defs().get(0, []):
            if d[0] == 's':
                e = F.Expr.of_rvalue(b, d[3]['r'], 10).strip()
                if e.k == 'bin' and e.a == 'Add' and e.b.strip().k == 'bin' and e.b.strip().a == 'Mul':
                    return e.b.strip().b.const_value(), e.c.const_value()
        return None
    ctx.ob('TABLE', 'derived-threshold', okm and lin(rc) == (2, 1) and lin(mw) == (3, 1), fm.where(),
           'from_maintenance_config sets bft_threshold = required_confirmations/minimum_witnesses = (%s)/(%s) of f' % (lin(rc), lin(mw)))
    ctx.floor('TABLE', 2)
