"""C18 — stored keys open only with the current password; tampering is detected (structural clauses)."""
import json
import re
import facts as F
import lib as L

EXPLANATION = (
    "Static decision of structural clauses of C18 on MIR of src/encrypted_key_storage.rs: (1) AUTH-BEFORE-RELEASE — every "
    "non-error return of retrieve_master_seed is dominated by the Ok edge of a call that consumes the password parameter and "
    "(transitively, on all its success paths) passes the AEAD decrypt; (2) PLAINTEXT-FROM-AEAD — load_and_decrypt's result is "
    "decoded only from the Ok value of decrypt, keyed by derive_key(password, salt-from-file), nonce from the header; (3) "
    "TEMP-RENAME — the store file is only ever produced by rename from a with_extension temp path written and checked "
    "before, and nothing else opens the store path for writing; (4) CACHE-CLEAR — after a successful re-encryption in "
    "change_password every path to Ok clears the cache (or the cache lock is poisoned, which makes it unreadable); (5) "
    "SALT-SYMMETRY — the salt stored in the header is the salt given to the KDF, on both sides."
    ' (6) STORE-DURABLE — every Ok of store_master_seed, and every fill of the key cache in it, lies behind the Ok edge of encrypt_and_store.'
    ' (7) KDF-FUNCTION — the key-derivation routine (the function of this file that calls Argon2 hash_password_into) returns a key only '
    'behind the Ok edge of that call, which is given the password parameter and the salt parameter: the key is a function of '
    '(password, salt) on every path, so the salt written to the header is the salt the key was made with (no derived-key cache '
    'keyed by less than both).'
)
NOT_DECIDED = "byte-level tampering (trusted: ChaCha20-Poly1305 authentication), Argon2 itself, fsync durability of the temp file"
ASSUMPTIONS = ["ChaCha20Poly1305Cipher::decrypt fails on any altered ciphertext/nonce", "rename is atomic"]

MGR = 'encrypted_key_storage::EncryptedKeyStorageManager'
FILE = 'src/encrypted_key_storage.rs'
DECRYPT = re.compile(r'ChaCha20Poly1305Cipher::decrypt$|Aead>::decrypt$|::decrypt$')


def run(ctx):
    prog = ctx.prog
    prog.adt(MGR)
    bodies = list(prog.bodies.in_files([FILE]))
    for b in bodies:
        ctx.touch(b, len(b.calls()))
    auth = L.MustPassSummary(prog, lambda cs: bool(DECRYPT.search(cs.callee)) and 'Cipher' in cs.callee, depth=ctx.depth())

    # ---- 1. retrieve: password consumed on every non-error return
    rb = prog.async_body(MGR + '::retrieve_master_seed')
    pw = None
    for l in rb.locals_named('password'):
        pw = l
    sites = []
    for cs in rb.calls():
        if auth.is_p_call(cs):
            sites.append(cs)
    # which of those were created with the password parameter: poll sites resolve to the coroutine,
    # so look at the future's constructor call
    def uses_password(cs):
        txt = ' '.join(rb.expr(a).show() for a in cs.args)
        if 'password' in txt:
            return True
        # poll(Pin(&mut awaitee)) : awaitee = into_future(f(self, password))
        for a in cs.args:
            for x in rb.expr(a).walk():
                if x.k in ('let',) and x.c.k == 'call':
                    if 'password' in x.c.show():
                        return True
        return False
    sites = [cs for cs in sites if uses_password(cs)]
    ok_nodes = []
    for cs in sites:
        te = F.try_edges(rb, cs)
        if te and te[0] is not None:
            ok_nodes.append(te[0])
    n = 0
    seen_desc = {}
    for d in rb.defs().get(0, []):
        kind, bb, si, th = d
        if kind == 'c':
            cs = F.CallSite(rb, bb, th)
            if cs.callee.endswith('FromResidual<std::result::Result<std::convert::Infallible, E>>>::from_residual') or 'from_residual' in cs.callee:
                continue
            desc = cs.short() + '(..)'
            ln = cs.ln
        else:
            r = th['r']
            if r['k'] == 'agg' and r.get('var') == 'Err':
                continue
            desc = 'Ok(..)' if r['k'] == 'agg' else 'value'
            ln = th.get('ln')
        n += 1
        dname = desc.replace('(..)', '')
        seen_desc[dname] = seen_desc.get(dname, 0) + 1
        dom = any(rb.dominates(o, bb) for o in ok_nodes)
        ctx.ob('AUTH-BEFORE-RELEASE', 'retrieve:return:%s#%d' % (dname, seen_desc[dname]), dom, rb.where(ln),
               'return of %s at line %s is%s dominated by a successful password-authenticated decrypt%s' % (
                   desc, ln, '' if dom else ' NOT',
                   '' if dom else ': the seed is released without the password parameter ever being used on this path'), entry=MGR + '::retrieve_master_seed')
    ctx.floor('AUTH-BEFORE-RELEASE', 2)

    # ---- 2. plaintext only from the AEAD Ok value
    # The bodies that produce load_and_decrypt's success value: itself, or (when it hands the job to helpers and returns
    # their result) those helpers. Every file any of them reads must be the store path itself: a second source of key
    # material (backup copy, previous generation) is a store the current password does not protect.
    lb0 = prog.inl(MGR + '::load_and_decrypt', keep=r'::derive_key$')
    producers = []      # (body, bb, stmt)
    reads = []          # (body, call site, path expr, [caller arg exprs])

    def producers_of(body, depth, argmap):
        got = L.success_returns(body)
        for bb, st in got:
            producers.append((body, bb, st))
        for cs in body.calls(r'fs::File::open$|^std::fs::read$|^tokio::fs::read$|OpenOptions::open$|fs::read_to_string$'):
            reads.append((body, cs, body.expr(cs.args[-1] if not cs.callee.endswith('OpenOptions::open') else cs.args[1]), argmap))
        if depth <= 0:
            return
        # non-aggregate definitions of the return place: results of local helpers handed through
        for d in body.defs().get(0, []):
            kind, bb, si, th = d
            if kind == 'c':
                cs = F.CallSite(body, bb, th)
                if 'from_residual' in cs.callee:
                    continue        # the error return of a `?`: not a producer of the success value
                e = F.Expr('call', cs.callee, [F.Expr.of_operand(body, a, 20) for a in cs.args], cs)
            else:
                r = th['r']
                if r['k'] == 'agg':
                    continue
                e = F.Expr.of_rvalue(body, r, 30)
            for x in e.walk():
                if x.k == 'call' and prog.has_body(x.a) and x.a.startswith(MGR + '::') and x.a != body.root:
                    hb = prog.async_body(x.a)
                    if hb is None or hb.id == body.id:
                        continue
                    argmaps.setdefault(hb.id, []).append((prog.body(x.a), x.b))
                    if hb.id not in visited:
                        visited.add(hb.id)
                        producers_of(hb, depth - 1, None)
    argmaps = {}
    visited = set([lb0.id])
    producers_of(lb0, 3, None)
    seen_p = set()
    for i, (lb, bb, st) in enumerate(producers):
        if (lb.id, bb) in seen_p:
            continue
        seen_p.add((lb.id, bb))
        v = lb.expr(st['r']['ops'][0])
        dec = v.mentions_call(DECRYPT)
        under_try = False
        for x in v.walk():
            if x.k == 'try' and x.a.mentions_call(DECRYPT) is not None:
                under_try = True
        okk = False
        oks_salt = False
        oknonce = False
        if dec is not None:
            # cipher key <- derive_key(password, header.salt)
            keyflow = lb.backward_locals([a['p'][0] for a in dec.c.args if 'p' in a])
            dk = [cs for cs in lb.calls() if cs.callee.endswith('::derive_key::{closure#0}') or cs.callee.endswith('::derive_key')]
            for cs in dk:
                if cs.dest and (cs.dest[0] in keyflow):
                    okk = True
            for cs in lb.calls(r'::derive_key$'):
                txt = ' '.join(lb.expr(a).show() for a in cs.args)
                if 'password' in txt and 'header.salt' in txt and 'postcard::from_bytes' in txt:
                    oks_salt = True
            oknonce = any('header.nonce' in lb.expr(a).show() for a in dec.c.args)
        n = sum(1 for o in ctx.obls if o.rule == 'PLAINTEXT-FROM-AEAD' and o.key.startswith('load_and_decrypt:return'))
        ctx.ob('PLAINTEXT-FROM-AEAD', 'load_and_decrypt:return#%d' % n, dec is not None and under_try and okk and oks_salt and oknonce, lb.where(st.get('ln')),
               'returned data (%s) is decoded from %s; key from derive_key(password, header.salt of the decoded file): %s/%s; nonce from header: %s' % (
                   lb.root.rsplit('::', 1)[-1],
                   'the Ok value of decrypt' if under_try else 'something other than a successful decrypt', okk, oks_salt, oknonce))
    # single source: what is opened for reading is self.storage_path (directly, or as the argument every caller passes)
    for body, cs, pe, _unused in reads:
        def is_store(e):
            t = e.strip()
            return t.k == 'field' and isinstance(t.b, str) and t.b.endswith('::storage_path')
        ok_src = is_store(pe)
        shown = pe.brief(80)
        t = pe.strip()
        if not ok_src and t.k == 'param' and argmaps.get(body.id):
            ok_src = True
            shown = 'parameter `%s`' % t.b
            for root, args in argmaps[body.id]:
                idx = None
                for j in range(1, root.argc + 1):
                    if root.local_name(j) == t.b:
                        idx = j - 1
                if idx is None or idx >= len(args) or not is_store(args[idx]):
                    ok_src = False
                    shown += ' <- %s' % (args[idx].brief(80) if idx is not None and idx < len(args) else '?')
        n = sum(1 for o in ctx.obls if o.key.startswith('load:reads-store-only'))
        ctx.ob('PLAINTEXT-FROM-AEAD', 'load:reads-store-only#%d' % n, ok_src, cs.where(),
               ('key material is read from %s' % shown) + ('' if ok_src else
               ': NOT the store path itself — a second copy of the key material (backup / previous generation) opens with a password that is no longer current and hides tampering of the store'))
    ctx.floor('PLAINTEXT-FROM-AEAD', 2)

    # ---- 3. temp + rename discipline
    eb = prog.inl(MGR + '::encrypt_and_store', keep=r'::derive_key$')
    opens = eb.calls(r'OpenOptions::open$|fs::File::create$|^std::fs::write$')
    rn = eb.calls(r'^std::fs::rename$')
    okt = bool(opens) and bool(rn)
    detail = []
    for cs in opens:
        p = eb.expr(cs.args[-1] if cs.callee.endswith('create') else cs.args[1] if len(cs.args) > 1 else cs.args[0])
        t = p.mentions_call(r'Path::with_extension$')
        if t is None:
            okt = False
            detail.append('opens %s for writing' % p.brief(60))
    for cs in rn:
        src, dst = eb.expr(cs.args[0]), eb.expr(cs.args[1])
        if src.mentions_call(r'Path::with_extension$') is None or not dst.strip().show().endswith('storage_path'):
            okt = False
            detail.append('rename(%s, %s)' % (src.brief(40), dst.brief(40)))
        # rename after checked write
        wr = eb.calls(r'io::Write>::write_all$|io::Write::write_all$')
        w_ok = False
        for w in wr:
            te = F.try_edges(eb, w)
            if te and te[0] is not None and eb.dominates(te[0], cs.bb):
                w_ok = True
        if not w_ok:
            okt = False
            detail.append('rename not dominated by a checked write_all')
    ctx.ob('TEMP-RENAME', 'encrypt_and_store', okt, eb.where(),
           'store file is written to a with_extension temp path, checked, then renamed onto storage_path' if okt else '; '.join(detail) or 'no open/rename found')
    # nobody else writes the store path
    EB_ROOT = MGR + '::encrypt_and_store'
    for b in bodies:
        if b.id == eb.id or (b.root != EB_ROOT and prog.owner_roots(b.root, stop={EB_ROOT}) == {EB_ROOT}):
            continue        # encrypt_and_store itself, or a private helper working only for it (seen through the inlined body)
        for cs in b.calls(r'OpenOptions::open$|fs::File::create$|^std::fs::write$|^tokio::fs::write|^std::fs::rename$|^std::fs::copy$'):
            txt = ' '.join(b.expr(a).show() for a in cs.args)
            if 'storage_path' in txt:
                # read-only opens via OpenOptions are fine only if .write/.append/.create not in chain
                chain = b.expr(cs.args[0]).show() if cs.callee.endswith('open') else ''
                if cs.callee.endswith('open') and not re.search(r'OpenOptions::(write|append|create|truncate)', chain):
                    continue
                ctx.ob('TEMP-RENAME', 'other-writer:%s' % b.id, False, cs.where(), '%s writes the store path directly' % b.id)
    ctx.floor('TEMP-RENAME', 1)

    # ---- 4. cache clear after password change
    cb = prog.inl(MGR + '::change_password', keep=r'::(encrypt_and_store|load_and_decrypt|derive_key)$')      # lock helpers spliced in
    enc = [cs for cs in cb.calls() if cs.callee.endswith('::encrypt_and_store::{closure#0}')]
    start = []
    for cs in enc:
        te = F.try_edges(cb, cs)
        if te and te[0] is not None:
            start.append(te[0])
    def clear_nodes(body, depth=3):
        """CFG nodes of `body` after which the key cache is certainly cleared or unreadable"""
        nodes = set(cs.bb for cs in body.calls(r'HashMap::<.*>::clear$') if 'key_cache' in body.expr(cs.args[0]).show())
        for nnode, e in body.edge_nodes().items():
            c = F.edge_cond(body, e)
            if c.kind == 'disc' and 'key_cache' in c.expr.show() and c.expr.mentions_call(L.LOCK_ACQ) is not None and c.value != 0:
                nodes.add(nnode)
        if depth > 0:
            for cs in body.calls():
                if cs.local and cs.callee in prog.bodies and cs.callee.startswith(MGR) and not prog.bodies[cs.callee].is_async:
                    hb = prog.bodies[cs.callee]
                    inner = clear_nodes(hb, depth - 1)
                    if inner:
                        okh, _w = L.must_pass(hb, [0], inner, hb.return_blocks())
                        if okh:
                            nodes.add(cs.bb)
        return nodes

    clears = clear_nodes(cb)
    poisoned = set()
    succ = [bb for bb, _ in L.success_returns(cb)]
    okc = False
    if start and succ:
        okc, wit = L.must_pass(cb, start, set(clears) | set(poisoned), succ)
    ctx.ob('CACHE-CLEAR', 'change_password', okc and bool(clears), cb.where(),
           'after the re-encryption succeeded every path to Ok clears key_cache (or finds its lock poisoned)' if okc else
           'a path from the successful re-encryption reaches Ok without clearing key_cache: the old password keeps working through the cache')
    # and the new file is produced from data decrypted with the old password
    ld = [cs for cs in cb.calls() if cs.callee.endswith('::load_and_decrypt')]
    oko = any('old_password' in ' '.join(cb.expr(a).show() for a in cs.args) for cs in ld)
    en2 = [cs for cs in cb.calls() if cs.callee.endswith('::encrypt_and_store')]
    okn = any('new_password' in ' '.join(cb.expr(a).show() for a in cs.args) for cs in en2)
    ctx.ob('CACHE-CLEAR', 'change_password:old-then-new', oko and okn, cb.where(),
           'decrypts with old_password (%s) and re-encrypts with new_password (%s)' % (oko, okn))

    # ---- 5. salt symmetry on the encrypt side
    oks = False
    dk = eb.calls(r'::derive_key$')
    hdr = None
    for bi, si, s in eb.stmts():
        r = s['r']
        if r['k'] == 'agg' and r.get('adt', '').endswith('StorageHeader'):
            hdr = s
    if dk and hdr is not None:
        salt_kdf = eb.expr(dk[0].args[2]).strip().show() if len(dk[0].args) > 2 else '?'
        op = L.agg_field_operand(hdr, 'salt')
        salt_hdr = eb.expr(op).strip().show() if op else '??'
        oks = salt_kdf == salt_hdr
        nonce_op = L.agg_field_operand(hdr, 'nonce')
        nfl = eb.backward_locals([nonce_op['p'][0]]) if nonce_op and 'p' in nonce_op else set()
        encs = eb.calls(r'Cipher::encrypt$')
        okn = any(cs.dest and cs.dest[0] in nfl for cs in encs)
        ctx.ob('SALT-SYMMETRY', 'encrypt_and_store', oks and okn, eb.where(hdr.get('ln')),
               'header.salt = %s, KDF salt = %s; header.nonce comes from the cipher output: %s' % (salt_hdr, salt_kdf, okn))
    else:
        ctx.anchor_fail('SALT-SYMMETRY', 'derive_key / StorageHeader in encrypt_and_store')

    # ---- 6. a store is acknowledged, and the seed cached, only after it reached the file
    # "returned unchanged after reopening the file": every Ok of store_master_seed lies behind the Ok edge of
    # encrypt_and_store, and the in-memory cache is filled only behind it — otherwise a failed write leaves the seed cached
    # (served in this process, gone after a reopen) or a fast path acknowledges a store that never touched the file.
    sb = prog.inl(MGR + '::store_master_seed', keep=r'::(encrypt_and_store|load_and_decrypt|derive_key)$')
    ctx.touch(sb, len(sb.calls()))
    writes_ok = []
    for cs in sb.calls():
        if cs.callee.endswith('::encrypt_and_store::{closure#0}') or cs.callee.endswith('::encrypt_and_store'):
            te = F.try_edges(sb, cs)
            if te and te[0] is not None:
                writes_ok.append(te[0])
    succ_s = [bb for bb, _ in L.success_returns(sb)]
    if not writes_ok or not succ_s:
        ctx.anchor_fail('STORE-DURABLE', 'encrypt_and_store(..)? / Ok return in store_master_seed')
    else:
        bad_ret = [bb for bb in succ_s if not any(sb.dominates(w, bb) for w in writes_ok)]
        ctx.ob('STORE-DURABLE', 'store:ok-after-write', not bad_ret, sb.where(sb.line_of_block(bad_ret[0]) if bad_ret else None),
               'every Ok of store_master_seed is dominated by the Ok edge of encrypt_and_store' if not bad_ret else
               'store_master_seed can return Ok (line %s) without a successful encrypt_and_store on that path: the caller is told the seed is stored although the file was not written' % sb.line_of_block(bad_ret[0]),
               entry=MGR + '::store_master_seed')
        cins = [c for c in sb.calls(r'HashMap::<.*>::insert$') if c.args and 'key_cache' in sb.expr(c.args[0]).show()]
        early = [c for c in cins if not any(sb.dominates(w, c.bb) for w in writes_ok)]
        ctx.ob('STORE-DURABLE', 'store:cache-after-write', bool(cins) and not early, (early[0].where() if early else sb.where()),
               'the key cache is filled only after encrypt_and_store succeeded (%d insert site(s))' % len(cins) if cins and not early else
               ('the seed is put into the key cache (line %s) before / without a successful write of the store file: after a failed write the cache '
                'holds material that is not on disk' % early[0].ln if early else 'no key_cache insert found in store_master_seed (anchor)'),
               entry=MGR + '::store_master_seed')
    ctx.floor('STORE-DURABLE', 2)

    # ---- 7. the derived key is a function of (password, salt) on every path
    # SALT-SYMMETRY compares what is *handed to* the KDF routine with what is written to the header; that is only meaningful if
    # the routine's result really depends on both arguments on every path (a derived-key cache indexed by the password alone
    # hands out a key made with an earlier salt: the file is then encrypted under a key its own header cannot reproduce).
    kroots = set()
    for b in bodies:
        if b.calls(r'::hash_password_into$'):
            # a private step helper belongs to the routine(s) it works for
            r_ = b.root
            for _ in range(2):
                rb_ = prog.bodies.get(r_)
                cal = {prog.bodies[c].root for c in list(prog.callers_of(r_)) + list(prog.callers_of(r_ + '::{closure#0}'))} - {r_}
                if rb_ is None or rb_.is_pub or len(cal) != 1:
                    break
                r_ = next(iter(cal))        # a step helper with a single caller: judge the caller with the helper spliced in
            kroots.add(r_)
    kroots = sorted(kroots)
    if not kroots:
        ctx.anchor_fail('KDF-FUNCTION', 'a function of %s calling Argon2::hash_password_into' % FILE)
    for kr in kroots:
        kb = prog.inl(kr)
        ctx.touch(kb, len(kb.calls()))
        hs = kb.calls(r'::hash_password_into$')
        oks = []
        okin = True
        why = []
        for h in hs:
            te = F.try_edges(kb, h)
            if te and te[0] is not None:
                oks.append(te[0])
            ptys = [[kb.local_ty(x.a) for x in kb.expr(a).walk() if x.k == 'param' and x.a < 1000] for a in h.args[1:3]]
            okp = len(ptys) == 2 and any('SecureString' in t or 'str' in t for t in ptys[0]) and any('[u8' in t for t in ptys[1])
            if not okp:
                okin = False
                why.append('line %s: password / salt arguments are %s / %s' % (h.ln, kb.expr(h.args[1]).show()[:60], kb.expr(h.args[2]).show()[:60]))
        ctx.ob('KDF-FUNCTION', 'kdf-inputs@%s' % kr, bool(hs) and okin, kb.where(hs[0].ln if hs else None),
               'hash_password_into is given the password parameter and the salt parameter of %s' % kr.rsplit('::', 1)[-1] if okin else
               'hash_password_into is not fed from the password and salt parameters: ' + '; '.join(why), entry=kr)
        nret = 0
        seen = {}
        for d in kb.defs().get(0, []):
            kind, bb, si, th = d
            if kind == 'c':
                cs = F.CallSite(kb, bb, th)
                if 'from_residual' in cs.callee:
                    continue
                desc, ln = cs.short(), cs.ln
            else:
                r = th['r']
                if r['k'] == 'agg' and r.get('var') == 'Err':
                    continue
                desc, ln = ('Ok' if r['k'] == 'agg' else 'value'), th.get('ln')
            nret += 1
            seen[desc] = seen.get(desc, 0) + 1
            dom = any(kb.dominates(o, bb) for o in oks) or (bool(oks) and L.must_pass(kb, [0], oks, [bb])[0])
            ctx.ob('KDF-FUNCTION', 'key-return:%s#%d@%s' % (desc, seen[desc], kr), dom, kb.where(ln),
                   'the key returned at line %s lies behind the Ok edge of hash_password_into(password, salt)' % ln if dom else
                   'a key is returned at line %s without passing hash_password_into(password, salt) on that path: the result is not a function of the '
                   'salt argument there (a key made for another salt can be handed out, and the file written under it cannot be opened with the salt in its header)' % ln,
                   entry=kr)
        if not nret:
            ctx.anchor_fail('KDF-FUNCTION', 'a non-error return in %s' % kr)
    ctx.floor('KDF-FUNCTION', 2)
