"""C03 — put stores on every replica it reports; get returns only stored bytes (structural clauses)."""
import json
import re
import facts as F
import lib as L

EXPLANATION = (
    "Static decision of structural clauses of C03 on MIR of src/dht/core_engine.rs and src/dht_network_manager.rs: (1) SIZE-GATE "
    "— the only writers of DataStore.data are DataStore::put/_remove and the clear in leave_network; every call of put is "
    "dominated by len(value) <= C with C <= 512 on the value stored; the manager's put / put_with_targets / remote PUT handler "
    "pass validate_put_value_size (C <= 512) before anything is stored or sent; (2) ACK-IMPLIES-STORED — every `success: true` "
    "receipt of DhtCoreEngine::store is dominated by the local DataStore::put, and the manager stores locally before reporting "
    "PutSuccess; (3) NO-SELF-TARGET — the peers handed to the request sender in put are filtered by is_local_peer_id; (4) "
    "GET-EXIT — the get loop can reach GetNotFound only on an empty candidate queue / empty drained batch / exhausted budget "
    "(the snapshot-stagnation exit is infeasible and allow-listed), the not-found result reports queried.len(), the value "
    "returned is the one carried by the reply to a FindValue for the requested key, and it is cached through the gated store."
)
NOT_DECIDED = "cross-node ground truth after arbitrary histories; that remote replicas actually hold the bytes; put_with_targets targets are caller-supplied"
ASSUMPTIONS = ["HashMap insert/get semantics", "the reply matching of C04 delivers the reply of the request sent"]

ENG = 'dht::core_engine::DhtCoreEngine'
DS = 'dht::core_engine::DataStore'
MGR = 'dht_network_manager::DhtNetworkManager'


def _const(prog, e):
    st = e.strip()
    v = st.const_value()
    if v is None and st.k == 'const' and st.d in prog.consts:
        v = prog.const_val(st.d)
    return v


def size_gate(prog, body, node, value_locals=None, limit=512):
    """is `node` dominated by  len(x) <= C  (C <= limit)?  returns (ok, cond text)"""
    for c in F.dominating_conds(body, node):
        if L.cmp_is(c, lambda e: e.mentions_call(r'::len$') is not None, ('Le',), lambda e: _const(prog, e) is not None and _const(prog, e) <= limit):
            return True, c.brief(120)
        if L.cmp_is(c, lambda e: e.mentions_call(r'::len$') is not None, ('Lt',), lambda e: _const(prog, e) is not None and _const(prog, e) <= limit + 1):
            return True, c.brief(120)
    return False, None


def run(ctx):
    prog = ctx.prog
    prog.adt(DS)
    # ---- 1. who writes the store; size gates
    tag = json.dumps('.%s::data' % DS)
    writers = set()
    for b in prog.bodies.containing(tag):
        for cs in b.calls(r'HashMap::<.*>::(insert|remove|clear|entry|extend|retain|drain)$'):
            e = b.expr(cs.args[0]).strip()
            if e.k == 'field' and e.b.endswith(DS + '::data'):
                writers.add((b.id, cs.short()))
    allowed = {(DS + '::put', 'insert'), (DS + '::_remove', 'remove'), (ENG + '::leave_network::{closure#0}', 'clear')}
    for w in sorted(writers):
        ctx.ob('WHO-WRITES', 'store-writer:%s:%s' % w, w in allowed, w[0], '%s calls HashMap::%s on DataStore.data (%s)' % (w[0], w[1], 'allowed' if w in allowed else 'NOT an allowed writer'))
    ctx.floor('WHO-WRITES', 2)
    nput = 0
    for b0 in prog.bodies.containing(json.dumps(DS + '::put')):
        if not any(cs.callee == DS + '::put' for cs in b0.calls()):
            continue
        # the routine with its private helpers spliced in: a `check_value_size(&v)?` helper gates the put through its success edges
        b = prog.inl(b0.id, keep=re.escape(DS + '::put') + '$') if (not b0.parent or b0.is_coroutine) else b0
        for cs in b.calls():
            if cs.callee != DS + '::put':
                continue
            nput += 1
            ok, why = size_gate(prog, b, cs.bb)
            # the gated length is the length of the value stored
            ctx.touch(b)
            ctx.ob('SIZE-GATE', 'put@%s' % b.id, ok, cs.where(), 'DataStore::put is%s dominated by a value-length gate <= 512%s' % ('' if ok else ' NOT', ' (%s)' % why if why else ''), entry=b.root)
    ctx.floor('SIZE-GATE', 2)
    vp = prog.body(MGR + '::validate_put_value_size')
    rej = L.rejecting_conds(vp)
    okv = any(L.cmp_is(c, lambda e: e.strip().show() == 'value_len', 'Gt', lambda e: _const(prog, e) is not None and _const(prog, e) <= 512) for c in rej)
    ctx.ob('SIZE-GATE', 'validate_put_value_size', okv, vp.where(), 'validate_put_value_size rejects value_len > C with C <= 512: %s' % okv)
    for fn in ('put', 'put_with_targets', 'handle_dht_request'):
        b = prog.async_body(MGR + '::' + fn)
        ctx.touch(b, len(b.calls()))
        val = [c for c in b.calls() if c.callee == MGR + '::validate_put_value_size']
        stores = [c for c in b.calls() if re.search(r'::(store_local_in_core|store_local)$', c.callee)]
        sends = [s for s in _request_sites(prog, b)]
        okg = bool(val)
        for site_bb in [c.bb for c in stores] + sends:
            okg = okg and bool(L.success_conds(b, site_bb, r'::validate_put_value_size$'))
        ctx.ob('SIZE-GATE', 'manager:%s' % fn, okg and bool(stores), b.where(),
               '%s: local store (%d sites) and request construction (%d sites) are all dominated by validate_put_value_size Ok: %s' % (fn, len(stores), len(sends), okg))

    # ---- 2. acknowledged implies stored
    st = prog.async_body(ENG + '::store')
    ctx.touch(st, len(st.calls()))
    puts = [c for c in st.calls() if c.callee == DS + '::put']
    n = 0
    for bb, agg in L.success_returns(st):
        v = st.expr(agg['r']['ops'][0])
        for x in v.walk():
            if x.k == 'agg' and str(x.a).endswith('StoreReceipt::StoreReceipt') and x.c:
                fm = dict(zip(x.c, x.b))
                if fm.get('success') is not None and fm['success'].const_value() is True:
                    n += 1
                    dom = any(st.dominates(p.bb, bb) for p in puts)
                    ctx.ob('ACK-IMPLIES-STORED', 'store:receipt#%d' % n, dom, st.where(agg.get('ln')),
                           'a `success: true` receipt is%s dominated by DataStore::put%s' % ('' if dom else ' NOT', '' if dom else ': the store acknowledges without storing'), entry=ENG + '::store')
    ctx.floor('ACK-IMPLIES-STORED', 1)
    pb = prog.async_body(MGR + '::put')
    n = 0
    for bi, si, s in pb.stmts():
        r = s['r']
        if r['k'] == 'agg' and r.get('var') == 'PutSuccess':
            n += 1
            dom = bool(L.success_conds(pb, bi, r'::store_local_in_core'))
            ctx.ob('ACK-IMPLIES-STORED', 'put:PutSuccess#%d' % n, dom, pb.where(s.get('ln')), 'PutSuccess is%s dominated by a successful local store' % ('' if dom else ' NOT'))
    # the remote handler acknowledges only after storing
    hb = prog.async_body(MGR + '::handle_dht_request')
    for bi, si, s in hb.stmts():
        r = s['r']
        if r['k'] == 'agg' and r.get('var') == 'PutSuccess':
            dom = bool(L.success_conds(hb, bi, r'::store_local_in_core'))
            ctx.ob('ACK-IMPLIES-STORED', 'remote-put:PutSuccess', dom, hb.where(s.get('ln')), 'remote PUT acknowledges only after a successful local store: %s' % dom)
    sl = prog.async_body(MGR + '::store_local_in_core')
    oksl = False
    for cs in sl.calls():
        if cs.callee.endswith('DhtCoreEngine::store') and 'key' in sl.expr(cs.args[1]).show() and sl.expr(cs.args[2]).strip().show() == 'value':
            oksl = True
    ctx.ob('ACK-IMPLIES-STORED', 'store_local_in_core', oksl, sl.where(), 'store_local_in_core hands (key, value) to DhtCoreEngine::store and propagates its error: %s' % oksl)

    # ---- 2b. an outcome is attributed to the peer it came from
    # PutSuccess.peer_outcomes names the replicas that acknowledged. The (peer, outcome) pair must be built inside the
    # future that awaits the request to that very peer; pairing replies with targets by position is only sound when the
    # combinator keeps launch order (join_all), never after an unordered drain.
    paired = 0
    mism = []
    for i in prog.family(MGR + '::put'):
        fb = prog.bodies[i]
        if not any(c.callee.endswith('::send_dht_request') for c in fb.calls()):
            continue
        for bi, si, st in fb.stmts():
            r = st['r']
            if r['k'] != 'agg' or len(r.get('ops', [])) != 2 or r.get('adt'):
                continue
            e0, e1 = fb.expr(r['ops'][0]), fb.expr(r['ops'][1])
            sd = e1.mentions_call(r'::send_dht_request$')
            if sd is None or len(sd.b) < 2:
                continue
            who = sd.b[1].strip()
            tag = e0.strip()
            while tag.k == 'call' and tag.b and re.search(r'Clone>::clone$|::clone$|ToString>::to_string$|ToOwned>::to_owned$', tag.a):
                tag = tag.b[0].strip()
            if tag.show() == who.show():
                paired += 1
            else:
                mism.append((fb, st, tag, who))
    unordered = None
    zipped = None
    for i in prog.family(MGR + '::put'):
        fb = prog.bodies[i]
        for c in fb.calls(r'FuturesUnordered|buffer_unordered|select_all|select_ok|FuturesOrdered'):
            if 'FuturesOrdered' not in c.callee:
                unordered = c
        for c in fb.calls(r'Iterator::zip$|Iterator>::zip$|iter::zip$'):
            zipped = c
    ordered = any(fb2.calls(r'future::join_all$|join_all$|FuturesOrdered|try_join_all$') for fb2 in (prog.bodies[i] for i in prog.family(MGR + '::put')))
    okattr = not mism and not (unordered is not None and zipped is not None) and (paired >= 1 or (zipped is not None and ordered and unordered is None))
    ctx.ob('ATTRIBUTION', 'put:outcome-paired-with-its-peer', okattr, (mism[0][0].where(mism[0][1].get('ln')) if mism else (unordered.where() if unordered is not None and zipped is not None else pb.where())),
           ('each (peer, outcome) pair is built in the future that awaits the request to that peer (%d site)' % paired) if okattr else
           ('a reply is paired with %s but was awaited from %s' % (mism[0][2].brief(40), mism[0][3].brief(40)) if mism else
            ('replies drained in completion order (%s) are zipped back onto the target list: an acknowledgement is attributed to whichever peer '
             'sits at that position — a replica that never stored is reported as successful' % unordered.short()) if (unordered is not None and zipped is not None) else
            'no (peer, outcome) pair built next to the awaited send_dht_request was found: attribution of acknowledgements cannot be established'),
           entry=MGR + '::put')
    ctx.floor('ATTRIBUTION', 1)

    # ---- 3. the node never targets itself
    targets_ok = False
    detail = 'replication iterator not found'
    for cs in pb.calls(r'Iterator::map$|Iterator>::map$'):
        clos = [x for x in pb.expr(cs.args[1]).walk() if x.k == 'agg' and x.d == 'closure']
        if not clos or clos[0].a not in prog.bodies:
            continue
        fam = prog.family(clos[0].a)
        if not any(any(c.callee.endswith('::send_dht_request') for c in prog.bodies[i].calls()) for i in fam):
            continue
        src = pb.expr(cs.args[0])
        flt = src.mentions_call(r'Iterator::filter$|Iterator>::filter$')
        filt_local = False
        if flt is not None:
            for x in flt.walk():
                if x.k == 'agg' and x.d == 'closure' and x.a in prog.bodies:
                    if prog.bodies[x.a].calls(r'::is_local_peer_id$'):
                        filt_local = True
        # or: the vector itself was filtered earlier (retain)
        for rc in pb.calls(r'Vec::<.*>::retain$'):
            for x in pb.expr(rc.args[1]).walk():
                if x.k == 'agg' and x.d == 'closure' and x.a in prog.bodies and prog.bodies[x.a].calls(r'::is_local_peer_id$'):
                    if pb.dominates(rc.bb, cs.bb):
                        filt_local = True
        targets_ok = filt_local
        detail = 'PUT requests are built from %s' % src.brief(140)
    ctx.ob('NO-SELF-TARGET', 'put:targets-exclude-self', targets_ok, pb.where(),
           ('%s, filtered by is_local_peer_id' % detail) if targets_ok else
           ('%s with no is_local_peer_id filter: the lookup result contains the seeded local node, so a PUT is addressed to the node itself' % detail))

    # ---- 4. get loop
    gb = prog.inl(MGR + '::get', keep=r'::(send_dht_request|mark_self_queried|find_closest_nodes_local|is_local_peer_id|store_local_in_core|record_peer_success|record_peer_failure)$')
    ctx.touch(gb, len(gb.calls()))
    loop = L.main_loop_with(gb, r'::send_dht_request$')
    nf_blocks = [bi for bi, si, s in gb.stmts() if s['r']['k'] == 'agg' and s['r'].get('var') == 'GetNotFound']
    if loop is None or not nf_blocks:
        ctx.ob('GET-EXIT', 'get:loop', False, gb.where(), 'lookup loop / GetNotFound return not found')
    else:
        # roles, not names: the queue is what is popped in the loop, the batch what the requests are mapped over, the queried
        # set what mark_self_queried is given
        hq, nsq = loop

        def key_of(op):
            k_ = L.operand_key(gb, op)
            return {k_} if k_ is not None else set()
        queue = set()
        for c in gb.calls(r'VecDeque::<.*>::(pop_front|pop_back)$'):
            if c.bb in nsq and c.args:
                queue |= key_of(c.args[0])
        batch = set()
        for cs in gb.calls(r'Iterator::map$|Iterator>::map$'):
            clos = [x for x in gb.expr(cs.args[1]).walk() if x.k == 'agg' and x.d == 'closure']
            if clos and clos[0].a in prog.bodies and any(any(c.callee.endswith('::send_dht_request') for c in prog.bodies[i].calls()) for i in prog.family(clos[0].a)):
                for (l, f_) in L.expr_keys(gb, gb.expr(cs.args[0])):
                    if f_ is None and any(re.search(r'Vec<.*DHTNode', gb.local_ty(x)) for x in L.alias_classes(gb).get(l, {l})):
                        batch.add((l, f_))
        queried = set()
        for c in gb.calls():
            if c.callee == MGR + '::mark_self_queried' and len(c.args) > 1:
                queried |= key_of(c.args[1])
        # what the stagnation snapshot is computed from: the queue (ids of the remaining candidates)
        kinds = L.classify_exits(gb, loop, nf_blocks, (), queue_locals=queue, batch_locals=batch, result_locals=queue | queried, keyed=True)
        for i, (k, c, ln) in enumerate(kinds):
            ok = k in ('queue-empty', 'batch-empty', 'budget', 'stagnation')
            note = {'stagnation': ' (infeasible: an id once popped is marked queried and can never be queued again; allow-listed)'}.get(k, '')
            ctx.ob('GET-EXIT', 'get:exit:%s#%d' % (k, sum(1 for kk, _, _ in kinds[:i] if kk == k)), ok, gb.where(ln),
                   'loop exit towards GetNotFound guarded by %s: %s%s' % (c.brief(100) if c else 'nothing', k, note))
        ctx.floor('GET-EXIT', 3)
        # batch is drained from the queue until ALPHA or empty
        for bi, si, s in gb.stmts():
            r = s['r']
            if r['k'] == 'agg' and r.get('var') == 'GetNotFound':
                op = r['ops'][r['fields'].index('peers_queried')]
                e = gb.expr(op)
                okq = e.mentions_call(r'HashSet::<.*>::len$') is not None and L.touches_keys(gb, e, queried)
                ctx.ob('GET-EXIT', 'get:not-found-reports-queried', okq, gb.where(s.get('ln')), 'GetNotFound.peers_queried = queried_nodes.len(): %s' % okq)
        # value provenance: GetSuccess inside the loop carries the reply's value and the request key
        okval = False
        for bi, si, s in gb.stmts():
            r = s['r']
            if r['k'] == 'agg' and r.get('var') == 'GetSuccess' and 'retrieve' not in gb.expr(dict(zip(r['fields'], r['ops']))['value']).show():
                fm = dict(zip(r['fields'], r['ops']))
                ve = gb.expr(fm['value'])
                ke = gb.expr(fm['key'])
                ja = [c.dest[0] for c in gb.calls(r'::join_all$') if c.dest]
                vl = [fm['value']['p'][0]] if 'p' in fm['value'] else []
                from_reply = bool(set(ja) & gb.backward_locals(vl, limit=2000))
                okval = from_reply and ke.strip().show() in ('key', '*key')
                ctx.ob('GET-EXIT', 'get:value-from-reply', okval, gb.where(s.get('ln')), 'GetSuccess carries the value of a ValueFound/GetSuccess reply (%s) under the requested key (%s)' % (from_reply, ke.strip().show()))
        # the request sent is FindValue{key: *key}
        okreq = False
        for cid in prog.family(gb.id):
            cb = prog.bodies[cid]
            for bi, si, s in cb.stmts():
                r = s['r']
                if r['k'] == 'agg' and r.get('var') == 'FindValue':
                    okreq = 'key' in L._names(cb.expr(r['ops'][0])) or 'key' in cb.expr(r['ops'][0]).show()
        ctx.ob('GET-EXIT', 'get:asks-for-key', okreq, gb.where(), 'queries are FindValue for the requested key: %s' % okreq)
        # cached through the gated store
        ja2 = set(c.dest[0] for c in gb.calls(r'::join_all$') if c.dest)
        cache = [c for c in gb.calls() if c.callee.endswith('DhtCoreEngine::store') and 'p' in c.args[2]
                 and (ja2 & gb.backward_locals([c.args[2]['p'][0]], limit=2000))]
        ctx.ob('GET-EXIT', 'get:cache-through-gated-store', bool(cache), gb.where(), 'a found value is cached through DhtCoreEngine::store (size-gated): %s' % bool(cache))

        # the queue of a lookup / get is seeded from the node's own answer (find_closest_nodes_local): a known peer withheld from
        # that answer is never queried, so the C02 rules about which entries the local answer may leave out are evaluated here too
        from props import c02 as C02
        import runner as _runner
        sub = _runner.Ctx('C02', prog, ctx.tier, ctx.progs)
        try:
            C02.run(sub)
            for o in sub.obls:
                if o.key.startswith('local-answer:skip-reason') or o.key == 'local-answer:skip-reasons-closed':
                    ctx.ob('LOCAL-ANSWER', o.key, o.ok, o.where, o.detail, entry=o.entry)
        except Exception as e:  # pragma: no cover - fail closed
            ctx.ob('LOCAL-ANSWER', 'local-answer:rules-ran', False, '-', 'the local-answer rules could not be evaluated: %s' % e)
        ctx.floor('LOCAL-ANSWER', 1)


def _request_sites(prog, b):
    """blocks of `b` where requests are constructed: closures reaching send_dht_request"""
    out = []
    for bi, si, s in b.stmts():
        r = s['r']
        if r['k'] == 'agg' and r.get('def') and r['def'] in prog.bodies:
            for cid in prog.family(r['def']):
                if any(c.callee.endswith('::send_dht_request') for c in prog.bodies[cid].calls()):
                    out.append(bi)
                    break
    for c in b.calls():
        if c.callee.endswith('::send_dht_request'):
            out.append(c.bb)
    return out
