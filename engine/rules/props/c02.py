"""C02 — routing-table closest-node answers are exact, duplicate-free and capped (structural clauses)."""
import json
import re
import facts as F
import lib as L

EXPLANATION = (
    "Static decision of structural clauses of C02 on MIR of src/dht/core_engine.rs and src/dht_network_manager.rs: (1) CAPS — "
    "the count reaching the table lookup in handle_request is min(count, MAX_FIND_NODE_COUNT<=20) or the constant K<=20, the "
    "manager's reply path asks for the constant 8; (2) TOTAL-SCAN — the vector that is sorted and truncated is filled by a "
    "traversal of all buckets whose only exits are exhaustion, with un-clamped bucket indices (a clamped/early-exit walk "
    "returns duplicates and hides closer peers); (3) UNIQUE — a bucket insert is dominated by an absence test on the id and the "
    "table insert by id != self; (4) ORDER — ascending sort on the full 32-byte XOR distance, then take(count); (5) REPLY — the "
    "merged local answer is deduplicated, never contains the local node, sorted, truncated, requester dropped; every DHTNode "
    "built for a reply names its peer in one identifier domain."
    ' (6) closed world over every inbound handler: the count of a decoded FindNode reaching the table lookup (followed through parameters) is capped at <= 20 in any spelling (min / if-else / clamp); the bucket scan may be an iterator chain without cutting adapters; key-based sorts need the full [u8; 32] key.'
)
NOT_DECIDED = "the numerical XOR ordering itself (library Ord on [u8;32]); table contents after arbitrary histories"
ASSUMPTIONS = ["Ord on [u8; 32] is lexicographic", "Vec::retain / iter().any behave as documented"]

RT = 'dht::core_engine::KademliaRoutingTable'
KB = 'dht::core_engine::KBucket'
ENG = 'dht::core_engine::DhtCoreEngine'
MGR = 'dht_network_manager::DhtNetworkManager'
CLAMP = re.compile(r'::(saturating_add|saturating_sub|wrapping_add|wrapping_sub|min|max|clamp)$')


ITER_OK = re.compile(r'iter::Iterator::(flat_map|map|cloned|copied|flatten|chain|enumerate|inspect|rev|by_ref|collect)$|IntoIterator::into_iter$')
ITER_CUT = re.compile(r'iter::Iterator::(filter|filter_map|take|take_while|skip|skip_while|step_by|map_while|find|find_map|scan|zip|nth|last|peekable|fuse)$')


def _collect_chain(prog, fc, sorts):
    """the iterator-chain form of the bucket scan: returns (all adapters pass every element, root is self.buckets,
    [cutting adapters], key uses DhtKey::distance, where) or None when the sorted vector is not built by collect()"""
    recv = L.operand_root(sorts[0].args[0]) if sorts[0].args else None
    if recv is None:
        return None
    cls = L.alias_of(fc, [recv])
    col = [c for c in fc.calls() if c.declared.endswith('iter::Iterator::collect') and c.dest and c.dest[0] in cls]
    if not col:
        return None
    c = col[0]
    e = fc.expr(c.args[0])
    bad = []
    okc = True
    dist = False
    for x in e.walk():
        if x.k == 'call' and x.c is not None:
            d = x.c.declared
            if ITER_CUT.search(d):
                bad.append(d.rsplit('::', 1)[-1])
            elif d.startswith('std::iter::Iterator::') or d.startswith('core::iter::Iterator::'):
                if not ITER_OK.search(d):
                    okc = False
        if x.k == 'agg' and x.d == 'closure' and x.a in prog.bodies:
            for cid in prog.family(x.a):
                cb = prog.bodies[cid]
                for cc in cb.calls():
                    if ITER_CUT.search(cc.declared):
                        bad.append(cc.declared.rsplit('::', 1)[-1])
                    if cc.callee.endswith('DhtKey::distance'):
                        dist = True
    root_ok = any(x.k == 'field' and isinstance(x.b, str) and x.b.endswith('::buckets') for x in e.walk())
    return okc, root_ok, bad, dist, c.where()


def _const_le(prog, e, limit):
    st = e.strip()
    v = st.const_value()
    if v is None and st.k == 'const' and st.d in prog.consts:
        v = prog.const_val(st.d)
    return isinstance(v, int) and not isinstance(v, bool) and v <= limit


def bounded_by(prog, b, e, limit):
    """is the value provably <= limit?  min(.., C), a constant, or a local every definition of which is a constant <= limit
    or a copy of y made under a dominating `y <= C` / `y < C` fact (the if/else spelling of min)"""
    top = e.strip()
    if top.k == 'call' and re.search(r'::min$|cmp::min$', top.a) and any(_const_le(prog, a, limit) for a in top.b):
        return True
    if top.k == 'call' and re.search(r'::clamp$', top.a) and len(top.b) == 3 and _const_le(prog, top.b[2], limit):
        return True
    if _const_le(prog, e, limit):
        return True
    if top.k in ('local', 'let') and isinstance(top.a, int):
        ds = b.defs().get(top.a, [])
        if len(ds) < 2:
            return False
        for d in ds:
            if d[0] != 's':
                return False
            v = F.Expr.of_rvalue(b, d[3]['r'], 20)
            if _const_le(prog, v, limit):
                continue
            vt = v.strip().show()
            ok = False
            for cd in F.dominating_conds(b, d[1]):
                if cd.kind != 'cmp':
                    continue
                for x, y, op in ((cd.lhs, cd.rhs, cd.op), (cd.rhs, cd.lhs, F.CMP_FLIP[cd.op])):
                    if x.strip().show() == vt and op in ('Le', 'Lt') and _const_le(prog, y, limit if op == 'Le' else limit + 1):
                        ok = True
            if not ok:
                return False
        return True
    return False


def _count_class(prog, b, e, depth):
    """('capped' | 'uncapped' | 'local', detail) for a count expression: peer-supplied when it reads the `count` field of a
    decoded FindNode message (directly, or through a parameter whose callers pass one)"""
    top = e.strip()
    if top.k == 'call' and re.search(r'::min$|cmp::min$', top.a) and any(_const_le(prog, a, 20) for a in top.b):
        return 'capped', 'min(.., <= 20): ' + e.brief(70)
    peer = any(x.k == 'downcast' and x.b == 'FindNode' for x in e.walk())
    if not peer and top.k in ('local', 'let') and isinstance(top.a, int):
        # a multi-definition local (if/else): peer-supplied when one of its definitions reads the message field
        for d in b.defs().get(top.a, []):
            if d[0] == 's' and any(x.k == 'downcast' and x.b == 'FindNode' for x in F.Expr.of_rvalue(b, d[3]['r'], 20).walk()):
                peer = True
    if peer and bounded_by(prog, b, e, 20):
        return 'capped', 'bounded by <= 20 on every path: ' + e.brief(70)
    if peer:
        return 'uncapped', 'the peer-supplied count reaches the lookup uncapped (%s): one request returns the whole routing table' % e.brief(70)
    if _const_le(prog, e, 20):
        return 'local', 'constant'
    if top.k == 'param' and depth > 0:
        pname = top.b
        worst = ('local', 'parameter fed by local callers')
        root = b.root
        for cid in prog.callers_of(root):
            cb = prog.bodies[cid]
            for cs in cb.calls():
                if cs.callee != root and cs.declared != root:
                    continue
                rb = prog.bodies.get(root)
                idx = rb.param_index(pname) if rb is not None else None
                if idx is None or idx - 1 >= len(cs.args):
                    continue
                st, d = _count_class(prog, cb, cb.expr(cs.args[idx - 1]), depth - 1)
                if st == 'uncapped':
                    return st, d + ' (through %s)' % root.rsplit('::', 1)[-1]
                if st == 'capped':
                    worst = (st, d)
        return worst
    return 'local', 'not derived from an inbound message'


def run(ctx):
    prog = ctx.prog
    prog.adt(RT)
    fc = prog.body(RT + '::find_closest_nodes')
    ctx.touch(fc, len(fc.calls()))

    # ---- 1. caps
    hr = prog.inl(ENG + '::handle_request', keep=r'KademliaRoutingTable::find_closest_nodes$')
    ctx.touch(hr, len(hr.calls()))
    n = 0
    for cs in hr.calls(r'::find_closest_nodes$'):
        n += 1
        cnt = hr.expr(cs.args[2])
        detail = cnt.brief(80)
        okc = bounded_by(prog, hr, cnt, 20)
        ctx.ob('CAPS', 'handle_request:count#%d' % n, okc, cs.where(), 'count handed to the table lookup = %s (must be capped at <= 20)' % detail)
    ctx.floor('CAPS', 2)
    # closed world: wherever the crate asks the table for closest nodes with a count taken from a decoded FindNode message
    # (any inbound handler, not only handle_request), the count is min(count, C <= 20) or a constant <= 20
    nsite = 0
    seen_sites = set()
    for needle in ('find_nodes', 'find_closest_nodes'):
        for b in prog.bodies.containing(needle):
            for cs in b.calls(r'DhtCoreEngine::find_nodes$|KademliaRoutingTable::find_closest_nodes$'):
                if (b.id, cs.bb) in seen_sites or len(cs.args) < 3:
                    continue
                seen_sites.add((b.id, cs.bb))
                st, detail = _count_class(prog, b, b.expr(cs.args[2]), 2)
                if st == 'local':
                    continue
                nsite += 1
                k = sum(1 for o in ctx.obls if o.key.startswith('peer-count@%s' % b.root))
                ctx.ob('CAPS', 'peer-count@%s#%d' % (b.root, k), st == 'capped', cs.where(),
                       'count of an inbound FindNode handed to the table lookup: %s' % detail, entry=b.root)
                ctx.touch(b)
    ctx.floor('CAPS', 5)
    hl = prog.async_body(MGR + '::handle_lookup_request')
    ctx.touch(hl, len(hl.calls()))
    okl = False
    for cs in hl.calls(r'::find_closest_nodes_local$'):
        st = hl.expr(cs.args[2]).strip()
        v = st.const_value()
        if v is None and st.k == 'const' and st.d in prog.consts:
            v = prog.const_val(st.d)
        okl = v is not None and v <= 20
    frn = [c for c in hl.calls(r'::filter_response_nodes$')]
    okf = bool(frn) and hl.expr(frn[0].args[0]).mentions_call(r'::find_closest_nodes_local') is not None and 'requester' in hl.expr(frn[0].args[1]).show()
    # every NodesFound reply carries exactly that filtered list
    nf = 0
    for bi, si, st in hl.stmts():
        r = st['r']
        if r['k'] == 'agg' and r.get('var') == 'NodesFound' and 'nodes' in (r.get('fields') or []):
            nf += 1
            op = r['ops'][r['fields'].index('nodes')]
            okf = okf and 'p' in op and _all_defs_from(hl, op['p'][0], r'::filter_response_nodes$')
    okf = okf and nf >= 1
    ctx.ob('CAPS', 'reply:count-const', okl, hl.where(), 'reply path asks the local answer for a constant count <= 20: %s' % okl)
    ctx.ob('REPLY', 'reply:requester-dropped', okf, hl.where(), 'reply nodes = filter_response_nodes(local answer, requester): %s' % okf)

    # ---- 2. total scan
    pushes = [c for c in fc.calls(r'Vec::<.*>::push$')]
    sorts = [c for c in fc.calls(r'sort_by$|sort_by_key$|sort_unstable_by$|::sort$')]
    loops = L.natural_loops(fc)
    chain = _collect_chain(prog, fc, sorts) if (sorts and not pushes) else None
    chain_dist = False
    if chain is not None:
        # iterator form: buckets.iter().flat_map(|b| b.nodes.iter()).map(|n| (n.clone(), distance)).collect()
        okc, root_ok, bad, chain_dist, where = chain
        ctx.ob('TOTAL-SCAN', 'scan:no-early-exit', not bad, where,
               'the candidate vector is collected from an iterator chain with no short-circuiting adapter' if not bad else
               'the iterator chain that builds the candidates uses %s: entries are cut off before the sort' % bad[0])
        ctx.ob('TOTAL-SCAN', 'scan:index-not-clamped', True, where, 'the bucket slice is iterated directly (no index arithmetic)')
        ctx.ob('TOTAL-SCAN', 'scan:covers-all-buckets', root_ok, where, 'the chain starts from an iterator over all of self.buckets: %s' % root_ok)
        ctx.ob('TOTAL-SCAN', 'scan:every-entry-collected', okc and not bad, where,
               'every entry of every bucket flows into collect() (only flat_map / map / cloned adapters): %s' % (okc and not bad))
    elif not pushes or not sorts:
        ctx.ob('TOTAL-SCAN', 'scan:shape', False, fc.where(), 'no push / sort found in find_closest_nodes (%d/%d)' % (len(pushes), len(sorts)))
    else:
        sort_bb = sorts[0].bb
        bad_exits = []
        for h, nodes in loops:
            if not any(p.bb in nodes for p in pushes):
                continue
            for (a, b) in L.loop_exits(fc, nodes):
                if sort_bb not in fc.reachable_from([b]):
                    continue
                edges = fc.edge_nodes()
                c = F.edge_cond(fc, edges[b]) if b in edges else (F.edge_cond(fc, edges[a]) if a in edges else None)
                exhausted = c is not None and c.kind == 'disc' and c.variant_is(0) and L.mentions_next(c.expr) is not None
                if not exhausted:
                    bad_exits.append((a, b, c))
        ctx.ob('TOTAL-SCAN', 'scan:no-early-exit', not bad_exits, fc.where(fc.line_of_block(F.block_of_node(fc, bad_exits[0][0])) if bad_exits else None),
               'every exit of the bucket walk is exhaustion of its iterator' if not bad_exits else
               'the bucket walk can stop before all buckets were visited (exit guarded by `%s`): closer peers in unvisited buckets are hidden' % (
                   bad_exits[0][2].brief(120) if bad_exits[0][2] is not None else 'unconditional break'))
        # bucket indices
        clamped = []
        idxs = [c for c in fc.calls(r'ops::Index<.*>>::index$|ops::Index::index$') if fc.expr(c.args[0]).strip().show().endswith('.buckets')]
        for c in idxs:
            ie = fc.expr(c.args[1])
            m = ie.mentions_call(CLAMP)
            if m is not None:
                clamped.append((c, m))
        ctx.ob('TOTAL-SCAN', 'scan:index-not-clamped', not clamped, (clamped[0][0].where() if clamped else fc.where()),
               'bucket indices are plain loop values / the bucket slice is iterated directly' if not clamped else
               'bucket index is clamped with %s: the same bucket is visited repeatedly and its peers are returned several times' % clamped[0][1].a.rsplit('::', 1)[-1])
        # coverage: iterating self.buckets directly, or a constant range >= number of buckets
        covers = False
        nb = prog.const_val('dht::core_engine::KADEMLIA_BUCKET_COUNT') if 'dht::core_engine::KADEMLIA_BUCKET_COUNT' in prog.consts else 256
        for cs in fc.calls():
            if cs.declared.endswith('IntoIterator::into_iter'):
                e = fc.expr(cs.args[0]).strip()
                if e.k == 'field' and e.b.endswith('::buckets'):
                    covers = True
                if e.k == 'call' and re.search(r'(Vec::<.*>|<impl \[T\]>)::iter$', e.a) and e.b[0].strip().show().endswith('.buckets'):
                    covers = True
                if e.k == 'agg' and str(e.a).endswith('Range::Range'):
                    lo, hi = e.b[0].const_value(), e.b[1].const_value()
                    st = e.b[1].strip()
                    if hi is None and st.k == 'const' and st.d in prog.consts:
                        hi = prog.const_val(st.d)
                    if lo == 0 and hi is not None and hi >= nb:
                        covers = True
                    if lo == 0 and e.b[1].mentions_call(r'Vec::<.*>::len$') is not None and 'buckets' in e.b[1].show():
                        covers = True
        ctx.ob('TOTAL-SCAN', 'scan:covers-all-buckets', covers, fc.where(), 'the walk ranges over all %s buckets: %s' % (nb, covers))
        # every entry of every visited bucket becomes a candidate: no element of the walk is skipped
        okall = True
        why = ''
        wl = None
        for pcall in pushes:
            okp, wl, why = L.every_iteration_passes(fc, pcall.bb)
            okall = okall and okp
        ctx.ob('TOTAL-SCAN', 'scan:every-entry-collected', okall, fc.where(wl),
               ('every routing-table entry visited by the walk is pushed into the candidate vector' if okall else
                'the walk skips entries before they become candidates (%s): the answer is not the exact closest set' % why))
    ctx.floor('TOTAL-SCAN', 4)

    # ---- 3. unique entries
    ka = prog.body(KB + '::add_node')
    ctx.touch(ka)
    kp = [c for c in ka.calls(r'Vec::<.*>::push$')]
    oku = bool(kp)
    detail = 'no push found'
    for c in kp:
        # every path to the push passes an absence verdict on the id (any/contains false, find/position None)
        # or a retain that removes the id first
        passn = set(x.bb for x in ka.calls(r'Vec::<.*>::retain$'))
        for nnode, e in ka.edge_nodes().items():
            cd = F.edge_cond(ka, e)
            t = cd.show()
            if 'nodes' not in t:
                continue
            if cd.kind == 'bool' and not cd.truth and re.search(r'::(any|contains)\(', t):
                passn.add(nnode)
            if cd.kind == 'disc' and cd.variant_is(0) and re.search(r'::(find|position|find_map)\(', t):
                passn.add(nnode)
        absent, _w = L.must_pass(ka, [0], passn, [c.bb]) if passn else (False, None)
        oku = oku and absent
        detail = 'every path to the bucket push %s an absence test (or a retain) on the node id' % ('passes' if absent else 'does NOT pass')
    ctx.ob('UNIQUE', 'bucket:no-duplicate-insert', oku, ka.where(), detail + ('' if oku else ': adding a known peer again stores it twice'))
    ra = prog.body(RT + '::add_node')
    ctx.touch(ra)
    ins = [c for c in ra.calls(r'KBucket::add_node$')]
    oks = False
    for c in ins:
        for cd in F.dominating_conds(ra, c.bb):
            t = cd.show()
            if cd.kind == 'bool' and 'node_id' in t and '.id' in t:
                if (re.search(r'PartialEq.*>::eq\(', t) and not cd.truth) or (re.search(r'PartialEq.*>::ne\(', t) and cd.truth):
                    oks = True
    ctx.ob('UNIQUE', 'table:never-self', oks, ra.where(), 'the table insert is%s dominated by node.id != self.node_id' % ('' if oks else ' NOT') + ('' if oks else ': the local node can be listed in its own table'))
    ctx.floor('UNIQUE', 2)

    # ---- 4. order
    asc = False
    full = False
    for c in [c for c in fc.calls(r'sort_by$|sort_unstable_by$')]:
        for x in fc.expr(c.args[1]).walk():
            if x.k == 'agg' and x.d == 'closure' and x.a in prog.bodies:
                cb = prog.bodies[x.a]
                for cc in cb.calls(r'::cmp$'):
                    a0 = cb.expr(cc.args[0]).show()
                    a1 = cb.expr(cc.args[1]).show()
                    # closure params _2 (a) and _3 (b): ascending iff a is the receiver; the comparator
                    # must compare the whole distance (no slicing / other calls)
                    asc = ('arg2' in a0 or (cb.local_name(2) or '~') in a0) and ('arg3' in a1 or (cb.local_name(3) or '~') in a1) \
                        and len(cb.calls()) == 1
    # key-based spellings: sort_by_key(|e| e.distance) with a [u8; 32] key, or sort() on (distance, entry) tuples
    for c in fc.calls(r'sort_by_key$|sort_unstable_by_key$|sort_by_cached_key$'):
        for x in fc.expr(c.args[1]).walk():
            if x.k == 'agg' and x.d == 'closure' and x.a in prog.bodies:
                kb = prog.bodies[x.a]
                kt = kb.local_ty(0)
                if re.match(r'^&?\[u8; 32\]$', kt) and not any(ITER_CUT.search(cc.declared) for cc in kb.calls()):
                    asc = True
                elif 'Reverse' in kt:
                    asc = False
    for c in fc.calls(r'<impl \[T\]>::sort$|<impl \[T\]>::sort_unstable$'):
        vt = L.operand_ty(fc, c.args[0]) or ''
        if re.search(r'\[\(\[u8; 32\], ', vt) or re.search(r'Vec<\(\[u8; 32\], ', vt):
            asc = True
    dist = prog.body('dht::core_engine::DhtKey::distance')
    for r in dist.aggregates():
        if str(r.get('adt', '')).endswith('Range') and len(r['ops']) == 2:
            if dist.expr(r['ops'][0]).const_value() == 0 and dist.expr(r['ops'][1]).const_value() == 32:
                full = True
    # or: a traversal of the whole 32-byte result array
    if dist.local_ty(0) == '[u8; 32]':
        for c in dist.calls(r'<impl \[T\]>::iter_mut$|<impl \[T\]>::iter$'):
            src = [l for l in dist.backward_locals([c.args[0]['p'][0]]) if dist.local_ty(l) == '[u8; 32]'] if 'p' in c.args[0] else []
            if src and not dist.calls(r'Iterator::(take|skip|step_by)$'):
                full = True
    xor = any(s['r']['k'] == 'bin' and s['r']['op'] == 'BitXor' for _, _, s in dist.stmts())
    srt = [c for c in fc.calls(r'sort_by$|sort_unstable_by$|sort_by_key$|sort_unstable_by_key$|sort_by_cached_key$|<impl \[T\]>::sort$|<impl \[T\]>::sort_unstable$')]
    tk = [c for c in fc.calls(r'Iterator::take$|Iterator>::take$')]
    oktake = bool(tk) and fc.expr(tk[0].args[1]).strip().show() == 'count' and bool(srt) and fc.dominates(srt[0].bb, tk[0].bb)
    dsrc = all(fc.expr(p.args[1]).mentions_call(r'DhtKey::distance$') is not None for p in pushes) if pushes else chain_dist
    ctx.ob('ORDER', 'sort-asc-then-take', asc and oktake, fc.where(), 'candidates sorted ascending by distance (%s) and then take(count) (%s)' % (asc, oktake))
    ctx.ob('ORDER', 'distance-full-width', full and xor and dsrc, dist.where(), 'sort key is DhtKey::distance of each entry (%s), XOR over all 32 bytes (%s)' % (dsrc, full and xor))
    fn = prog.inl(ENG + '::find_nodes', keep=r'KademliaRoutingTable::find_closest_nodes$')
    okfn = any(True for c in fn.calls(r'::find_closest_nodes$') if fn.expr(c.args[2]).strip().show() == 'count' and fn.expr(c.args[1]).strip().show() == 'key')
    # the answer is the table's answer: either find_nodes hands back find_closest_nodes(key, count) unchanged, or whatever
    # other engine state it reads (a memo of recent answers, an index ..) is refreshed on EVERY path that follows a change of
    # the routing table — including the error exit of a routine that had already inserted some nodes
    derived = sorted(f for f in L.fields_read(prog, fn, ENG, depth=2) if f not in ('routing_table', 'node_id'))
    stale = []
    if derived:
        MUTRT = r'KademliaRoutingTable::(add_node|remove_node)$|KBucket::(add_node|remove_node)$'
        for mb in prog.bodies.containing('KademliaRoutingTable'):
            if not mb.root.startswith(ENG + '::') or mb.root.endswith('::new'):
                continue
            ib = prog.inl(mb.id, keep=MUTRT) if not mb.parent or mb.is_coroutine else mb
            muts = ib.calls(MUTRT)
            if not muts:
                continue
            for f in derived:
                tag = '.%s::%s' % (ENG, f)
                passn = set()
                for g in L.guards(ib):
                    if g.mode in ('write', 'lock') and g.lock_field() == f:
                        passn.add(g.def_bb)
                for bi_, kind_, th_ in L.body_field_writes(ib, ENG, f):
                    if kind_ in ('assign', 'call-dest', 'mut-borrow'):
                        passn.add(bi_)
                for m in muts:
                    starts = [m.target] if m.target is not None else []
                    okp, wit = L.must_pass(ib, starts, passn, ib.return_blocks())
                    if not okp:
                        stale.append((ib, m, f, wit))
    ctx.ob('ORDER', 'find_nodes-delegates', (okfn and not derived) or (bool(derived) and not stale), (stale[0][1].where() if stale else fn.where()),
           ('DhtCoreEngine::find_nodes returns find_closest_nodes(key, count) unchanged: %s' % okfn) if not derived else
           (('find_nodes also reads %s; every path after a routing-table change refreshes it' % derived) if not stale else
            ('find_nodes answers from engine state `%s`, and %s can change the routing table (line %s) and return (line %s) without refreshing it: the next '
             'answer for that key is computed from a table that no longer exists' % (stale[0][2], stale[0][0].root.rsplit('::', 1)[-1], stale[0][1].ln,
                                                                                      stale[0][0].line_of_block(F.block_of_node(stale[0][0], stale[0][3])) if stale[0][3] is not None else '?'))),
           entry=ENG + '::find_nodes')
    ctx.floor('ORDER', 3)

    # ---- 5. reply assembly
    lb = prog.async_body(MGR + '::find_closest_nodes_local')
    ctx.touch(lb, len(lb.calls()))
    lp = [c for c in lb.calls(r'Vec::<.*>::push$')]
    k = 0
    domains = []
    # closed list of reasons for leaving a known peer out of the local answer: it is the local node, it was listed already,
    # it is not connected, it has no address. Anything else (a score, an age, a quota ..) withholds a peer the node knows from
    # every lookup seeded with this answer — it is then never queried, although it may be the closest holder.
    def _skip_kind(cd):
        if cd.kind == 'bool':
            t = cd.expr
            if t.mentions_call(r'::is_local_peer_id$') is not None and cd.truth:
                return 'local node'
            if t.mentions_call(r'HashSet::<.*>::insert$') is not None and not cd.truth:
                return 'already listed'
            if t.mentions_call(r'HashSet::<.*>::contains$') is not None and cd.truth:
                return 'already listed'
            if t.strip().show().endswith('.is_connected') and not cd.truth:
                return 'not connected'
        if cd.kind == 'disc' and cd.expr is not None:
            if cd.expr.mentions_call(r'::first$|::get$|::next$|::last$') is not None and 'addresses' in cd.expr.show() and not cd.variant_is(1):
                return 'no address'
            if L.mentions_next(cd.expr) is not None and cd.variant_is(0):
                return 'end of iteration'
            if L.is_poll_disc(cd):
                return 'await'
            if cd.expr.mentions_call(r'::find_nodes') is not None:
                return 'table lookup failed'
        return None
    nskip = 0
    for c in lp:
        loops_c = [(h_, ns_) for h_, ns_ in L.source_loops(lb) if c.bb in ns_]
        if not loops_c:
            continue
        h_, ns_ = min(loops_c, key=lambda x: len(x[1]))
        for n_, e_ in sorted(lb.edge_nodes().items()):
            if e_[0] not in ns_:
                continue
            if lb.blocks[e_[2]]['t']['k'] == 'unreachable':
                continue        # the impossible arm of a two-variant match
            reach_ = lb.reachable_from([n_], {h_})
            if c.bb in reach_:
                continue
            # an edge that leaves this element without listing it (it reaches the next iteration or the loop exit)
            cd_ = F.edge_cond(lb, e_)
            # only edges that are not themselves behind another skipping edge (report the outermost)
            if any(lb.dominates(n2_, n_) and n2_ != n_ and c.bb not in lb.reachable_from([n2_], {h_}) for n2_, e2_ in lb.edge_nodes().items() if e2_[0] in ns_):
                continue
            kind_ = _skip_kind(cd_)
            nskip += 1
            if kind_ is None:
                m_ = sum(1 for o in ctx.obls if o.key.startswith('local-answer:skip-reason'))
                ctx.ob('REPLY', 'local-answer:skip-reason#%d' % m_, False, lb.where(lb.line_of_block(e_[0])),
                       'a known peer is left out of the local answer when `%s`: not one of the accepted reasons (local node, already listed, '
                       'not connected, no address) — such a peer is never offered to a lookup and never queried' % cd_.brief(100), entry=lb.root)
    ctx.ob('REPLY', 'local-answer:skip-reasons-closed', nskip >= 4, lb.where(),
           '%d ways of leaving an entry out of the local answer examined; all are: local node / already listed / not connected / no address' % nskip)
    for c in lp:
        k += 1
        conds = F.dominating_conds(lb, c.bb)
        dedup = any(cd.kind == 'bool' and cd.truth and cd.expr.mentions_call(r'HashSet::<.*>::insert$') is not None for cd in conds)
        notself = any(cd.kind == 'bool' and not cd.truth and cd.expr.mentions_call(r'::is_local_peer_id$') is not None for cd in conds)
        ctx.ob('REPLY', 'local-answer:push#%d' % k, dedup and notself, c.where(),
               'entry added only if its id was not seen yet (%s) and is not the local node (%s)' % (dedup, notself))
        v = lb.expr(c.args[1])
        for x in v.walk():
            if x.k == 'agg' and str(x.a).endswith('DHTNode::DHTNode') and x.c:
                fm = dict(zip(x.c, x.b))
                pid = fm.get('peer_id')
                if pid is not None:
                    ts = pid.mentions_call(r'ToString>::to_string$|ToString::to_string$')
                    if ts is not None and ts.c is not None and ts.c.args and 'NodeId' in (L.operand_ty(lb, ts.c.args[0]) or ''):
                        domains.append(('hex(DHT key) via NodeId::to_string', c))
                    else:
                        domains.append(('transport peer id (dht_peers key)', c))
    ds = sorted(set(d for d, _ in domains))
    ctx.ob('REPLY', 'local-answer:one-identifier-domain', len(ds) <= 1, lb.where(),
           'all DHTNode.peer_id values in the local answer come from one identifier domain' if len(ds) <= 1 else
           'the local answer names peers in %d identifier domains (%s): a connected peer that is also in the routing table appears twice, under two ids, and the dedup set cannot see it' % (len(ds), '; '.join(ds)))
    ls = [c for c in lb.calls(r'sort_by$')]
    lt = [c for c in lb.calls(r'Iterator::take$|Iterator>::take$')]
    oklt = bool(ls) and bool(lt) and lb.expr(lt[0].args[1]).strip().show() == 'count' and lb.dominates(ls[0].bb, lt[0].bb)
    cmpd = False
    for c in ls:
        for x in lb.expr(c.args[1]).walk():
            if x.k == 'agg' and x.d == 'closure' and x.a in prog.bodies:
                if prog.bodies[x.a].calls(r'::compare_node_distance$'):
                    cmpd = True
    ctx.ob('REPLY', 'local-answer:sorted-truncated', oklt and cmpd, lb.where(), 'local answer sorted with compare_node_distance (%s) then take(count) (%s)' % (cmpd, oklt))
    fr = prog.body(MGR + '::filter_response_nodes')
    okfr = False
    for c in fr.calls(r'Iterator::filter$|Iterator>::filter$'):
        for x in fr.expr(c.args[1]).walk():
            if x.k == 'agg' and x.d == 'closure' and x.a in prog.bodies:
                if L.calls_decl(prog.bodies[x.a], 'cmp::PartialEq::ne'):
                    okfr = True
    ctx.ob('REPLY', 'filter_response_nodes', okfr, fr.where(), 'filter_response_nodes keeps entries whose peer_id differs from the requester: %s' % okfr)
    ctx.floor('REPLY', 5)


def _all_defs_from(body, l, rx, depth=6):
    """every definition of local l (through plain moves) is the result of a call matching rx"""
    rxc = re.compile(rx)
    ds = body.defs().get(l, [])
    if not ds or depth <= 0:
        return False
    for d in ds:
        if d[0] == 'c':
            cs = F.CallSite(body, d[1], d[3])
            if not rxc.search(cs.callee):
                return False
        else:
            r = d[3]['r']
            if r['k'] == 'use' and 'p' in r['o'] and len(r['o']['p']) == 1:
                if not _all_defs_from(body, r['o']['p'][0], rx, depth - 1):
                    return False
            else:
                return False
    return True
