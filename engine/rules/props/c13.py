"""C13 — per-subnet and per-ASN admission caps are never exceeded; slots are returned (structural clauses)."""
import json
import re
import facts as F
import lib as L

EXPLANATION = (
    "Static decision of structural clauses of C13 on MIR of src/security.rs, src/dht/core_engine.rs, src/bootstrap/manager.rs "
    "and src/dht_network_manager.rs: (1) PAIR — add and remove touch the same counter tables (IPv6 pair and IPv4 pair); (2) "
    "CHECK-BEFORE-INCREMENT — every counter increment of add_* is dominated by the true verdict of the matching can_accept_*, "
    "and no error return lies after the first increment (all levels are checked before any is incremented); (3) HALVING — in "
    "both can_accept functions every limit compared against a counter is the halved (min 1) value under the hosting / VPN "
    "flag, never a raw config field; (4) RELEASE — every engine body that removes a routing-table entry also returns the "
    "diversity and region slots; (5) ROLLBACK — in DhtCoreEngine::add_node every failure after add_unified succeeded gives the "
    "slots back; (6) GATE-REACHED — the address string handed to add_node on the integrated path is one its SocketAddr / IpAddr "
    "parse can read; (7) FAMILY — an admission site holding an IpAddr analyses IPv4 through the IPv4 / unified path."
    ' (8) release-guards — each counter is released under the same Option-presence conditions (asn / country known) under which it was taken; counter writers are closed under private helpers of the four add / remove routines.'
)
NOT_DECIDED = "LRU eviction of counters at the 50 000-entry tracking bound; arithmetic of get_per_ip_limit; concurrent admission (callers hold one write guard)"
ASSUMPTIONS = ["LruCache get/put/pop semantics", "callers serialise access through the enforcer's RwLock"]

ENF = 'security::IPDiversityEnforcer'
ENG = 'dht::core_engine::DhtCoreEngine'
RT = 'dht::core_engine::KademliaRoutingTable'


def tables(b, rx):
    """names of enforcer counter fields on which calls matching rx are made"""
    out = {}
    for c in b.calls(rx):
        e = b.expr(c.args[0]).strip()
        if e.k == 'field' and e.b.startswith(ENF + '::'):
            out.setdefault(e.b.rsplit('::', 1)[-1], []).append(c)
    return out


def run(ctx):
    prog = ctx.prog
    prog.adt(ENF)
    pairs = (('add_node', 'remove_node', 'can_accept_node'), ('add_ipv4', 'remove_ipv4', 'can_accept_ipv4'))
    for add, rem, can in pairs:
        # same-file helpers are spliced in (a take_slot / release_slot / caps helper changes nothing for these rules)
        ab = prog.inl(ENF + '::' + add, keep=r'::can_accept_')
        rb = prog.inl(ENF + '::' + rem)
        cb = prog.inl(ENF + '::' + can)
        for b in (ab, rb, cb):
            ctx.touch(b, len(b.calls()))
        # ---- 1. same tables
        ta = tables(ab, r'LruCache::<.*>::put$')
        tr = tables(rb, r'LruCache::<.*>::pop$')
        ctx.ob('PAIR', 'tables:%s/%s' % (add, rem), set(ta) == set(tr) and len(ta) >= 4, ab.where(),
               '%s increments %s; %s decrements %s' % (add, sorted(ta), rem, sorted(tr)))
        # decrement shape: put(new) only if new > 0, new = count.saturating_sub(1)
        okdec = True
        for fld, cs in tables(rb, r'LruCache::<.*>::put$').items():
            for c in cs:
                v = rb.expr(c.args[2])
                if v.mentions_call(r'::saturating_sub$') is None:
                    okdec = False
        ctx.ob('PAIR', 'decrement-shape:%s' % rem, okdec, rb.where(), '%s re-inserts count.saturating_sub(1) only: %s' % (rem, okdec))
        # ---- 1b. a level is released under the same presence conditions under which it was taken: the Option fields of the
        # analysis (asn, country ..) that gate the decrement of a table are among those that gate its increment. A release
        # that additionally needs some other field to be known never happens for nodes lacking that field: the slot leaks.
        def presence_guards(b, c):
            out = set()
            for cd in F.dominating_conds(b, c.bb):
                if cd.kind != 'disc' or cd.expr is None:
                    continue
                for x in cd.expr.walk():
                    if x.k == 'field' and isinstance(x.b, str) and re.search(r'security::(IPAnalysis|IPv4Analysis|UnifiedIPAnalysis|GeoInfo)::', x.b):
                        adt_, f_ = x.b.rsplit('::', 1)
                        try:
                            if prog.field_ty(adt_, f_).startswith('std::option::Option'):
                                out.add(f_)
                        except F.AnchorMissing:
                            pass
            return out
        for T in sorted(set(ta) & set(tr)):
            ga = set()
            for c in ta[T]:
                ga |= presence_guards(ab, c)
            for c in tr[T]:
                gr = presence_guards(rb, c)
                extra = sorted(gr - ga)
                ctx.ob('PAIR', 'release-guards:%s:%s' % (rem, T), not extra, c.where(),
                       ('%s gives the %s slot back under the same presence conditions as %s took it (%s)' % (rem, T, add, sorted(ga) or 'unconditional')) if not extra else
                       ('%s gives the %s slot back only if %s is known as well, but %s takes it without that condition: a node lacking %s keeps its %s slot for ever' % (
                           rem, T, ', '.join(extra), add, ', '.join(extra), T)), entry=ENF + '::' + rem)
        # ---- 2. check before increment
        puts = [c for cs in ta.values() for c in cs]
        okg = bool(puts)
        for c in puts:
            sc = [cd for cd in F.dominating_conds(ab, c.bb) if cd.kind == 'bool' and cd.truth and cd.expr.mentions_call(r'::%s$' % can) is not None]
            okg = okg and bool(sc)
            v = ab.expr(c.args[2])
            inc = v.strip().k == 'bin' and v.strip().a == 'Add' and v.strip().c.const_value() == 1
            okg = okg and inc
        ctx.ob('CHECK-BEFORE-INCREMENT', 'gated:%s' % add, okg, ab.where(), 'every counter put in %s is count+1 under the true verdict of %s: %s' % (add, can, okg))
        first = min(puts, key=lambda c: L.rpo(ab).get(c.bb, 10**6)) if puts else None
        errs = [d[1] for d in ab.defs().get(0, []) if d[0] == 's' and d[3]['r']['k'] == 'agg' and d[3]['r'].get('var') == 'Err']
        errs += [d[1] for d in ab.defs().get(0, []) if d[0] == 'c']
        late = first is not None and any(e in ab.reachable_from([first.bb]) for e in errs)
        ctx.ob('CHECK-BEFORE-INCREMENT', 'no-error-after-first-increment:%s' % add, first is not None and not late, ab.where(),
               'no error return is reachable after the first increment in %s (all levels checked first): %s' % (add, not late))
        # ---- 2b. every `true` answer has consulted every table that add_* increments
        # country_counts is a statistic: IPDiversityConfig defines no per-country limit, so there is no cap to consult
        _cap_consulted(ctx, cb, can, sorted(t for t in ta if t != 'country_counts'))
        # ---- 3. halving
        rej = L.rejecting_conds(cb)
        n = 0
        for cd in rej:
            if cd.kind != 'cmp':
                continue
            for cnt, lim in ((cd.lhs, cd.rhs), (cd.rhs, cd.lhs)):
                if cnt.mentions_call(r'LruCache::<.*>::peek$|LruCache::<.*>::get$') is None:
                    continue
                op = cd.op if cnt is cd.lhs else F.CMP_FLIP[cd.op]
                if op not in ('Ge', 'Gt'):
                    continue
                n += 1
                tb = cnt.mentions_call(r'LruCache::<.*>::peek$|LruCache::<.*>::get$').b[0].strip()
                tname = tb.b.rsplit('::', 1)[-1] if tb.k == 'field' else tb.show()
                raw = lim.strip().k == 'field' and '.config.' in lim.strip().show()
                halved = _halved(cb, lim)
                ctx.ob('HALVING', 'limit:%s:%s' % (can, tname), (not raw) and halved, cb.where(cd.edge and cb.line_of_block(cd.edge[0])),
                       ('%s compares the %s counter against %s' % (can, tname, lim.brief(80))) +
                       (' — a raw config field: the cap is NOT halved for hosting / VPN addresses on this path' if raw else
                        (' (halved under the hosting / VPN flag)' if halved else ' — no halving found')))
        if n < 4:
            ctx.ob('HALVING', 'limits-found:%s' % can, False, cb.where(), 'only %d counter-vs-limit comparisons recognised in %s' % (n, can))
    ctx.floor('PAIR', 15)
    ctx.floor('CHECK-BEFORE-INCREMENT', 4)
    ctx.floor('CAP-CONSULTED', 8)
    ctx.floor('HALVING', 8)
    # who may change the admission counters: only the add / remove pairs above (and constructors). Anything else that
    # puts, pops, clears or resizes a counter table desynchronises the counts from the admitted set.
    MUT = r'LruCache::<.*>::(put|push|pop|pop_lru|pop_entry|clear|resize|get_mut|peek_mut|get_or_insert_mut|iter_mut)$'
    allowed_roots = set(ENF + '::' + n for pr in pairs for n in pr[:2]) | {ENF + '::new', ENF + '::with_config', ENF + '::with_capacity'}
    counter_fields = set()
    for add, rem, can in pairs:
        counter_fields |= set(tables(prog.inl(ENF + '::' + add, keep=r'::can_accept_'), r'LruCache::<.*>::put$'))
    nmut = 0

    def owner_ok(root):
        return root in allowed_roots or prog.owner_roots(root, stop=allowed_roots) <= allowed_roots
    for b in prog.bodies.containing(json.dumps(ENF)):
        for c in b.calls(MUT):
            e = b.expr(c.args[0]).strip()
            if not (e.k == 'field' and e.b.startswith(ENF + '::') and e.b.rsplit('::', 1)[-1] in counter_fields):
                continue
            if owner_ok(b.root):
                continue
            n = sum(1 for o in ctx.obls if o.key.startswith('counter-writer:%s' % b.root))
            ctx.ob('PAIR', 'counter-writer:%s#%d' % (b.root, n), False, c.where(),
                   '%s changes the %s counter in %s: counters may only move in the add / remove pairs' % (c.short(), e.b.rsplit('::', 1)[-1], b.root), entry=b.root)
    # a counter table handed out by `&mut` (to a helper that puts / pops) counts as a write of that table by the borrower
    for fld in sorted(counter_fields):
        for wb, bi, kind, th in L.field_writes(prog, ENF, fld):
            if kind not in ('mut-borrow', 'assign', 'call-dest'):
                continue
            if owner_ok(wb.root):
                continue
            n = sum(1 for o in ctx.obls if o.key.startswith('counter-writer:%s' % wb.root))
            ctx.ob('PAIR', 'counter-writer:%s#%d' % (wb.root, n), False, wb.where(th.get('ln')),
                   '%s takes `&mut %s` / assigns it: counters may only move in the add / remove pairs' % (wb.root, fld), entry=wb.root)
    # how many counter updates the four routines perform (through their helpers)
    for add, rem, can in pairs:
        for fn in (add, rem):
            ib = prog.inl(ENF + '::' + fn, keep=r'::can_accept_')
            for c in ib.calls(MUT):
                e = ib.expr(c.args[0]).strip()
                if e.k == 'field' and e.b.startswith(ENF + '::') and e.b.rsplit('::', 1)[-1] in counter_fields:
                    nmut += 1
    ctx.ob('PAIR', 'counter-writers-closed', nmut >= 16, 'src/security.rs',
           '%d mutating calls on the %d counter tables, all inside add_node / remove_node / add_ipv4 / remove_ipv4 (and their private helpers) / constructors' % (nmut, len(counter_fields)))
    # unified dispatch
    for fn, v4, v6 in (('can_accept_unified', 'can_accept_ipv4', 'can_accept_node'), ('add_unified', 'add_ipv4', 'add_node'), ('remove_unified', 'remove_ipv4', 'remove_node')):
        b = prog.body(ENF + '::' + fn)
        ok = bool([c for c in b.calls() if c.callee == ENF + '::' + v4]) and bool([c for c in b.calls() if c.callee == ENF + '::' + v6])
        ctx.ob('FAMILY', 'dispatch:%s' % fn, ok, b.where(), '%s dispatches IPv4 -> %s and IPv6 -> %s: %s' % (fn, v4, v6, ok))

    # ---- 4. release on routing-table removal
    for b in prog.bodies.containing(json.dumps(RT + '::remove_node')):
        if not b.root.startswith(ENG + '::'):
            continue
        if not any(c.callee == RT + '::remove_node' for c in b.calls()):
            continue
        ctx.touch(b, len(b.calls()))
        rel = prog.reaches_call(b.root, lambda cs: cs.callee in (ENF + '::remove_unified', ENF + '::remove_node', ENF + '::remove_ipv4'), depth=3)
        reg = prog.reaches_call(b.root, lambda cs: cs.callee.endswith('GeographicDiversityEnforcer::_remove') or cs.callee.endswith('GeographicDiversityEnforcer::remove'), depth=3)
        ctx.ob('RELEASE', 'release@%s' % b.root, rel and reg, b.where(),
               '%s removes a routing-table entry and %s the IP-diversity slots (%s) / the region slot (%s)' % (
                   b.root.rsplit('::', 1)[-1], 'returns' if rel and reg else 'does NOT return', rel, reg), entry=b.root)
    ctx.floor('RELEASE', 2)

    # ---- 5. rollback in add_node
    an = prog.inl(ENG + '::add_node', keep=r'IPDiversityEnforcer|GeographicDiversityEnforcer|KademliaRoutingTable::')
    ctx.touch(an, len(an.calls()))
    adds = [c for c in an.calls() if c.callee == ENF + '::add_unified']
    rollback = [c.bb for c in an.calls() if c.callee in (ENF + '::remove_unified',)]
    errs = [d[1] for d in an.defs().get(0, []) if d[0] == 's' and d[3]['r']['k'] == 'agg' and d[3]['r'].get('var') == 'Err']
    errs += [d[1] for d in an.defs().get(0, []) if d[0] == 'c']
    if not adds:
        ctx.ob('ROLLBACK', 'add_node', False, an.where(), 'add_unified call not found in DhtCoreEngine::add_node')
    for c in adds:
        te = F.try_edges(an, c)
        start = [te[0]] if te and te[0] is not None else [c.target]
        reach = an.reachable_from(start, set(rollback))
        leaks = sorted(set(e for e in errs if e in reach))
        ctx.ob('ROLLBACK', 'add_node:partial-admission', not leaks, an.where(an.line_of_block(leaks[0]) if leaks else None),
               'after add_unified succeeded every error return gives the slots back' if not leaks else
               'after add_unified succeeded, %d error return(s) (e.g. line %s: region cap / full bucket) are reachable without remove_unified: a rejected node keeps its slots' % (
                   len(leaks), an.line_of_block(leaks[0])), entry=ENG + '::add_node')

    # ---- 6. the gate is reached with a parseable address on the integrated path
    hp = prog.async_body('dht_network_manager::DhtNetworkManager::handle_peer_connected')
    ctx.touch(hp, len(hp.calls()))
    produced = None
    for bi, si, s in hp.stmts():
        r = s['r']
        if r['k'] == 'agg' and r.get('adt') == 'dht::core_engine::NodeInfo':
            op = L.agg_field_operand(s, 'address')
            produced = hp.expr(op) if op else None
    rendering = None
    if produced is not None:
        ts = None
        for x in produced.walk():
            if x.k == 'call' and x.c is not None and x.c.declared.endswith('string::ToString::to_string'):
                ts = x
        if ts is not None:
            aty = L.operand_ty(hp, ts.c.args[0]) or ''
            rendering = aty
    parses = [c for c in an.calls(r'str>::parse$|<impl str>::parse$|FromStr>::from_str$') if 'address' in an.expr(c.args[0]).show()]
    stripped = any(an.expr(c.args[0]).mentions_call(r'::split$|::split_once$|::strip_suffix$|::trim_end_matches$|::rsplit') is not None for c in parses)
    disp_lit = _display_literals(prog, 'address::NetworkAddress')
    mismatch = rendering is not None and 'NetworkAddress' in rendering and any(' ' in l or '(' in l for l in disp_lit) and not stripped
    ctx.ob('GATE-REACHED', 'add_node:address-grammar', not mismatch and bool(parses), hp.where(),
           ('handle_peer_connected passes %s::to_string() (Display emits the literals %s) as NodeInfo.address, and add_node parses it as SocketAddr / IpAddr without '
            'stripping: the parse fails, so both the IP-diversity and the region gate are skipped for every peer on this path' % (rendering, disp_lit)) if mismatch else
           'the address string built for add_node (%s) is readable by its SocketAddr / IpAddr parse (stripped: %s)' % (rendering, stripped))

    # ---- 7. admission sites analyse IPv4 as IPv4
    bp = prog.async_body('bootstrap::manager::BootstrapManager::add_peer')
    ctx.touch(bp, len(bp.calls()))
    bad = None
    for c in bp.calls():
        if c.callee == ENF + '::analyze_ip':
            a = bp.expr(c.args[1])
            m = a.mentions_call(r'::ip_to_ipv6$|to_ipv6_mapped$')
            if m is not None:
                bad = c
    uni = [c for c in bp.calls() if c.callee == ENF + '::analyze_unified']
    ctx.ob('FAMILY', 'bootstrap:add_peer', bad is None and (bool(uni) or not bp.calls(r'::analyze_ip$')), (bad.where() if bad else bp.where()),
           'BootstrapManager::add_peer analyses the peer address with the unified / IPv4-aware path' if bad is None else
           'BootstrapManager::add_peer maps IPv4 to ::ffff:a.b.c.d and applies the IPv6 analysis: every IPv4 peer falls into the same /64 (and /48, /32), so the per-/64 cap is shared by all IPv4 peers')
    ctx.floor('FAMILY', 4)


def _halved(b, lim):
    """does the limit expression (possibly a local with several definitions) include a max(1, x / 2) definition?"""
    seen = set()
    st = lim.strip()
    # element of a tuple built on both arms of the hosting/VPN test: look at that element only
    base = st.a.strip() if st.k == 'field' else None
    while base is not None and base.k in ('let',):
        base = base.c.strip() if base.c.strip().k in ('local', 'let') else base
        break
    if st.k == 'field' and st.a.strip().k in ('local', 'let'):
        fname = st.b.rsplit('::', 1)[-1]
        elems = []
        # follow plain copies of the aggregate local (inlined helper returns, moves)
        todo = [st.a.strip().a]
        seen_l = set()
        while todo:
            tl = todo.pop()
            if tl in seen_l:
                continue
            seen_l.add(tl)
            for d in b.defs().get(tl, []):
                if d[0] != 's':
                    continue
                r = d[3]['r']
                if r['k'] == 'agg':
                    if r.get('ak') == 'tuple' and fname.isdigit() and int(fname) < len(r['ops']):
                        elems.append(b.expr(r['ops'][int(fname)]))
                    elif r.get('fields') and fname in r['fields']:
                        elems.append(b.expr(r['ops'][r['fields'].index(fname)]))
                elif r['k'] == 'use' and 'p' in r['o'] and len(r['o']['p']) == 1:
                    todo.append(r['o']['p'][0])
        if elems:
            def halved_expr(e):
                return any(x.k == 'call' and re.search(r'::max$', x.a) and any(y.k == 'bin' and y.a == 'Div' and y.c.const_value() == 2 for y in x.walk()) for x in e.walk())
            return any(halved_expr(e) for e in elems)

    def has(e, depth=6):
        if depth <= 0:
            return False
        for x in e.walk():
            if x.k == 'call' and re.search(r'::max$', x.a):
                if any(y.k == 'bin' and y.a == 'Div' and y.c.const_value() == 2 for y in x.walk()):
                    return True
            if x.k in ('local', 'let') and x.a not in seen:
                seen.add(x.a)
                for d in b.defs().get(x.a, []) + b.partial_defs().get(x.a, []):
                    if d[0] == 's':
                        if has(F.Expr.of_rvalue(b, d[3]['r'], 12), depth - 1):
                            return True
        return False
    return has(lim)


def _display_literals(prog, ty):
    for bid in prog.bodies.keys():
        if bid.startswith('<%s as std::fmt::Display>::fmt' % ty):
            b = prog.bodies[bid]
            lits = []
            for cs, pieces, args in L.format_calls(b):
                for k, v in (pieces or []):
                    if k == 'lit':
                        lits.append(v)
            return lits
    return []


LOOKUP = r'LruCache::<.*>::peek$|LruCache::<.*>::get$|LruCache::<.*>::peek_mut$|LruCache::<.*>::get_mut$'


def _table_of(e):
    """enforcer counter field a lookup expression reads, or None"""
    c = e.mentions_call(LOOKUP)
    if c is None or not c.b:
        return None, None
    t = c.b[0].strip()
    if t.k == 'field' and t.b.startswith(ENF + '::'):
        return t.b.rsplit('::', 1)[-1], c
    return None, None


def _cap_consulted(ctx, cb, can, tables_):
    """CAP-CONSULTED: on every path to `return true`, for every table T that the matching add_* increments, the path
    crosses a branch whose condition reads the T counter (lookup / contains, also through a helper call), or the None
    arm of the candidate's own Option field the T key is taken from (no ASN known: nothing to cap)."""
    trues = [d[1] for d in cb.defs().get(0, []) if d[0] == 's' and d[3]['r']['k'] == 'use' and d[3]['r']['o'].get('c') == 'true']
    if not trues:
        ctx.anchor_fail('CAP-CONSULTED', '%s: no `true` return found' % can)
        return
    edges = cb.edge_nodes()
    conds = {n: F.edge_cond(cb, e) for n, e in edges.items()}
    for T in tables_:
        pass_nodes = set()
        keysrc = set()
        for c in cb.calls(LOOKUP):
            t = cb.expr(c.args[0]).strip()
            if not (t.k == 'field' and t.b == ENF + '::' + T):
                continue
            for a in c.args[1:]:
                for x in cb.expr(a).walk():
                    if x.k == 'downcast':
                        keysrc.add(x.a.strip().show())
        for n, c in conds.items():
            exprs = [x for x in (getattr(c, 'expr', None), getattr(c, 'lhs', None), getattr(c, 'rhs', None)) if x is not None]
            # any branch whose condition reads the T counter (through helpers too): the counter was consulted; the
            # rejecting comparisons themselves are the HALVING obligations
            for ex in exprs:
                for x in ex.walk():
                    if x.k == 'call' and re.search(LOOKUP + r'|LruCache::<.*>::contains$', x.a) and x.b:
                        t = x.b[0].strip()
                        if t.k == 'field' and t.b == ENF + '::' + T:
                            pass_nodes.add(n)
            if c.kind == 'disc' and c.expr.strip().show() in keysrc and not c.variant_is(1):
                pass_nodes.add(n)          # the candidate has no such key (asn: None): nothing to cap
        ok, wit = L.must_pass(cb, [0], pass_nodes, trues)
        ctx.ob('CAP-CONSULTED', 'cap-consulted:%s:%s' % (can, T), ok and bool(pass_nodes), cb.where(cb.line_of_block(wit) if wit is not None else None),
               ('every `true` answer of %s lies behind a branch on the %s counter' % (can, T)) if ok and pass_nodes else
               ('%s can answer `true` (line %s) on a path that never consults the %s counter: that cap is not enforced on this path' % (
                   can, cb.line_of_block(wit) if wit is not None else '?', T)), entry=cb.id)
