"""C16 — failing or distrusted peers are sidelined exactly as the stated policy says (structural clauses)."""
import json
import re
import facts as F
import lib as L

EXPLANATION = (
    "Static decision of structural clauses of C16 on MIR of eviction.rs, liveness.rs, trust_peer_selector.rs and core_engine.rs: "
    "(1) WHO-WRITES consecutive_failures = {new: 0, record_failure: +1, record_success: 0}; should_evict is `>=` against "
    "max_consecutive_failures; the manager's record_* act on the entry of the given node; (2) REASONS — get_eviction_reason "
    "returns Some on exactly three gates (marked, failures>=cfg, trust<cfg) in that precedence, and get_eviction_candidates "
    "walks all three maps; (3) REMOVAL — evict_node / handle_node_failure always reach the routing-table removal of that id, "
    "removal is a retain on id in the bucket computed like insertion; (4) SELECTOR — exclusion (exclude_untrusted && trust < "
    "min) and NaN scores return None before a candidate clone is emitted, result = take(count) of a descending sort, storage "
    "uses the for_storage config (exclude, floor 0.2), engine fallback = take(count) of the distance order; (5) RANK-KEY — the "
    "distance feeding the score must not be a lossy projection of the 256-bit XOR distance."
    " (6) CLOSEST-ORDER — without trust selection the choice is the routing table's closest-node answer: C02's TOTAL-SCAN / ORDER obligations (all buckets scanned, ascending sort on the full 32-byte XOR distance, take(count)) are evaluated here too."
    ' REASONS also decides mark-removed-by: the explicit-rejection table (marked_for_eviction) is shrunk only by EvictionManager::remove_node (closed world over remove / clear / retain / drain on it).'
)
NOT_DECIDED = "ranking over all (distance, trust) float pairs beyond the projection check; timing of eviction w.r.t. lookups"
ASSUMPTIONS = ["Vec::retain removes every matching element", "slice::sort_by is stable"]

LIV = 'dht::routing_maintenance::liveness::NodeLivenessState'
EM = 'dht::routing_maintenance::eviction::EvictionManager'
SEL = 'dht::trust_peer_selector::TrustAwarePeerSelector::<T>'
ENG = 'dht::core_engine::DhtCoreEngine'
RT = 'dht::core_engine::KademliaRoutingTable'
KB = 'dht::core_engine::KBucket'


SEL_STORAGE = re.compile(r'TrustAwarePeerSelector::<.*>::select_storage_peers$|TrustAwarePeerSelector::select_storage_peers$')
SEL_QUERY = re.compile(r'TrustAwarePeerSelector::<.*>::select_peers$|TrustAwarePeerSelector::select_peers$')


def run(ctx):
    prog = ctx.prog
    prog.adt(LIV)
    # ---- 1. who writes consecutive_failures
    allowed = {LIV + '::new': 'zero', LIV + '::record_failure': 'inc', LIV + '::record_success': 'zero'}
    for b, bi, kind, th in L.field_writes(prog, LIV, 'consecutive_failures'):
        ctx.touch(b)
        if b.derived:
            continue
        if kind == 'aggregate':
            op = L.agg_field_operand(th, 'consecutive_failures')
            ok = b.id in allowed and op is not None and op.get('v') == '0'
            ctx.ob('WHO-WRITES', 'cf:construct:%s' % b.id, ok, b.where(th.get('ln')), 'NodeLivenessState built with consecutive_failures = %s in %s' % (op.get('c') if op else '?', b.id))
            continue
        if kind != 'assign':
            ctx.ob('WHO-WRITES', 'cf:%s:%s' % (kind, b.id), False, b.where(), 'consecutive_failures escapes via %s' % kind)
            continue
        e = F.Expr.of_rvalue(b, th['r'], 10).strip()
        cls = 'other'
        if e.k == 'const' and e.b == 0:
            cls = 'zero'
        elif e.k == 'bin' and e.a == 'Add' and e.c.const_value() == 1 and e.b.show().endswith('consecutive_failures'):
            cls = 'inc'
        ctx.ob('WHO-WRITES', 'cf:write:%s' % b.id, allowed.get(b.id) == cls, b.where(th.get('ln')),
               '%s stores consecutive_failures = %s (class %s; allowed here: %s)' % (b.id, e.brief(60), cls, allowed.get(b.id, 'none')))
    ctx.floor('WHO-WRITES', 3)
    se = prog.body(LIV + '::should_evict')
    okse = False
    for d in se.defs().get(0, []):
        if d[0] == 's':
            e = F.Expr.of_rvalue(se, d[3]['r'], 10)
            c = F.Cond('cmp', op=e.a, lhs=e.b, rhs=e.c) if e.k == 'bin' and e.a in F.CMP_NEG else None
            if c is not None and L.cmp_is(c, L.ends('.consecutive_failures'), 'Ge', L.ends('.max_consecutive_failures')):
                okse = True
    ctx.ob('WHO-WRITES', 'should_evict', okse, se.where(), 'should_evict == (consecutive_failures >= config.max_consecutive_failures): %s' % okse)
    for m, callee in (('record_failure', LIV + '::record_failure'), ('record_success', LIV + '::record_success')):
        b = prog.body(EM + '::' + m)
        ctx.touch(b)
        cs = [c for c in b.calls() if c.callee == callee]
        ok = False
        if cs:
            r = b.expr(cs[0].args[0])
            ent = r.mentions_call(r'HashMap::<.*>::entry$')
            ok = ent is not None and 'liveness_states' in ent.b[0].show() and 'node_id' in ent.b[1].show()
        ctx.ob('WHO-WRITES', 'manager:%s' % m, ok, b.where(), 'EvictionManager::%s applies %s to liveness_states.entry(node_id): %s' % (m, callee.rsplit('::', 1)[-1], ok))

    # ---- 2. reasons
    gr = prog.body(EM + '::get_eviction_reason')
    ctx.touch(gr, len(gr.calls()))
    somes = []
    for d in gr.defs().get(0, []):
        if d[0] == 's' and d[3]['r']['k'] == 'agg' and d[3]['r'].get('var') == 'Some':
            somes.append((d[1], d[3]))
    kinds = {}
    for bb, st in somes:
        conds = F.dominating_conds(gr, bb)
        atoms = L.true_atoms(prog, gr, bb)
        v = gr.expr(st['r']['ops'][0]).show()
        if 'ConsecutiveFailures' in v:
            # on this return the liveness entry's should_evict(config) is known to be true (if-let + filter, let-chain, is_some_and ..)
            clos_ok = any(e.mentions_call(r'NodeLivenessState::should_evict$') is not None for _b, e in atoms) and \
                any('liveness_states' in c.expr.show() for c in conds if c.kind in ('disc', 'bool') and c.expr is not None)
            kinds['failures'] = (bb, clos_ok, conds, 'liveness_states')
        elif 'LowTrust' in v:
            clos_ok = any(L.atom_is_cmp(e, lambda ee: True, 'Lt', L.ends('.min_trust_threshold')) for _b, e in atoms) and \
                any('trust_scores' in c.expr.show() for c in conds if c.kind in ('disc', 'bool') and c.expr is not None)
            kinds['trust'] = (bb, clos_ok, conds, 'trust_scores')
        else:
            mk = any(c.kind == 'disc' and c.variant_is(1) and 'marked_for_eviction' in c.expr.show() for c in conds) or \
                any(c.kind == 'bool' and c.truth and 'marked_for_eviction' in c.expr.show() for c in conds)
            kinds['marked'] = (bb, mk, conds, 'marked_for_eviction')
    for k in ('marked', 'failures', 'trust'):
        okk = k in kinds and kinds[k][1]
        ctx.ob('REASONS', 'reason:%s' % k, okk, gr.where(), 'get_eviction_reason has a Some(..) return gated by the `%s` condition: %s' % (k, okk))
    ctx.ob('REASONS', 'reason:count', len(somes) == 3, gr.where(), '%d Some(..) returns (exactly the three policy reasons)' % len(somes))
    # precedence: the gate of the earlier reason is evaluated before the later reason can be returned, and the later return is
    # not reachable from the earlier gate's positive edge
    def gate_edge(k):
        bb, _ok, conds, table = kinds[k]
        cands = [c for c in conds if c.edge is not None and c.expr is not None and table in c.expr.show() and
                 ((c.kind == 'disc' and c.variant_is(1)) or (c.kind == 'bool' and c.truth))]
        if not cands:
            return None
        edges = gr.edge_nodes()
        for n, e in edges.items():
            if e == cands[-1].edge:      # outermost such edge
                return n
        return None
    prec = False
    if all(k in kinds for k in ('marked', 'failures', 'trust')):
        gm, gf = gate_edge('marked'), gate_edge('failures')
        if gm is not None and gf is not None:
            em, ef = gr.edge_nodes()[gm], gr.edge_nodes()[gf]
            f_after_m = gr.dominates(em[0], kinds['failures'][0]) and kinds['failures'][0] not in gr.reachable_from([gm])
            t_after_f = gr.dominates(ef[0], kinds['trust'][0]) and kinds['trust'][0] not in gr.reachable_from([kinds['failures'][0]])
            prec = f_after_m and t_after_f
    ctx.ob('REASONS', 'reason:precedence', prec, gr.where(), 'precedence marked > failures > trust: %s' % prec)
    gc = prog.body(EM + '::get_eviction_candidates')
    ctx.touch(gc, len(gc.calls()))
    total = set()
    for c in gc.calls():
        if not c.declared.endswith('IntoIterator::into_iter'):
            continue
        e = gc.expr(c.args[0]).strip()
        # a total traversal: the map itself, or keys()/iter()/values() of it, with no adapter in between
        if e.k == 'call' and re.search(r'HashMap::<.*>::(keys|iter|values)$', e.a):
            e = e.b[0].strip()
        if e.k == 'field':
            total.add(e.b.rsplit('::', 1)[-1])
    okit = all(m in total for m in ('marked_for_eviction', 'liveness_states', 'trust_scores'))
    calls_reason = len([c for c in gc.calls() if c.callee == EM + '::get_eviction_reason']) >= 2
    ctx.ob('REASONS', 'candidates:all-maps', okit and calls_reason, gc.where(), 'get_eviction_candidates iterates marked, liveness and trust maps and asks get_eviction_reason: %s / %s' % (okit, calls_reason))
    # "explicitly rejected" ends only when the node is forgotten: the mark table is shrunk by remove_node alone (and filled by
    # record_eviction alone) — a mark dropped anywhere else (on a trust update, a success, a sweep) lets a rejected peer leave
    # the candidate set without ever having been removed
    nshrink = 0
    for b in prog.bodies.in_files(['src/dht/routing_maintenance/eviction.rs']):
        if b.is_test if hasattr(b, 'is_test') else False:
            continue
        for c in b.calls(r'HashMap::<.*>::(remove|remove_entry|clear|retain|drain|extract_if)$|Entry<.*>::(remove|remove_entry)$|OccupiedEntry<.*>::(remove|remove_entry)$'):
            if not c.args or 'marked_for_eviction' not in b.expr(c.args[0]).show():
                continue
            owners = prog.owner_roots(b.root)
            okw = owners == {EM + '::remove_node'}
            nshrink += 1
            ctx.ob('REASONS', 'mark-removed-by:%s' % b.root.rsplit('::', 1)[-1], okw, c.where(),
                   'the eviction mark is removed in %s (forgetting the node)' % b.root.rsplit('::', 1)[-1] if okw else
                   '%s removes an explicit eviction mark although the node is not being forgotten: an explicitly rejected peer stops being an eviction candidate' % b.root)
        if b.root != EM + '::remove_node':
            for bi_, si_, s_ in b.stmts():
                r_ = s_['r']
                if r_['k'] == 'ref' and r_.get('m') == 'mut' and any(isinstance(x, str) and x.endswith('::marked_for_eviction') for x in r_['p'][1:]):
                    uses = [c for c in b.calls() if c.bb >= 0 and c.args and 'p' in c.args[0] and c.args[0]['p'][0] == s_['d'][0]]
                    for c in uses:
                        if not re.search(r'::(insert|get|get_mut|contains_key|iter|len|is_empty|entry)$', c.callee) and not re.search(r'::(remove|remove_entry|clear|retain|drain|extract_if)$', c.callee):
                            ctx.ob('REASONS', 'mark-table-mut-use:%s' % b.root.rsplit('::', 1)[-1], False, c.where(), 'the mark table is handed mutably to %s in %s (not classified)' % (c.callee, b.root))
    if not nshrink:
        ctx.anchor_fail('REASONS', 'the removal of the eviction mark in remove_node')
    ctx.floor('REASONS', 7)

    # ---- 3. removal paths
    for name in ('evict_node', 'handle_node_failure'):
        b = prog.async_body(ENG + '::' + name)
        ctx.touch(b, len(b.calls()))
        rm = [c for c in b.calls() if c.callee == RT + '::remove_node']
        succ = [bb for bb, _ in L.success_returns(b)]
        ok = False
        idok = False
        if rm and succ:
            ok, _ = L.must_pass(b, [0], [c.bb for c in rm], succ)
            a = b.expr(rm[0].args[1]).strip()
            idok = a.k == 'param' or (a.k in ('let', 'local') and 'node' in (a.b or ''))
        ctx.ob('REMOVAL', '%s:reaches-routing-removal' % name, ok and idok, b.where(), '%s: every Ok path removes the given id from the routing table: %s (id argument: %s)' % (name, ok, idok))
    rr = prog.body(RT + '::remove_node')
    ar = prog.body(RT + '::add_node')
    ctx.touch(rr)
    ctx.touch(ar)
    same_idx = bool(rr.calls(r'::get_bucket_index$')) and bool(ar.calls(r'::get_bucket_index$'))
    kb = prog.body(KB + '::remove_node')
    ret = kb.calls(r'Vec::<.*>::retain$')
    okret = False
    for c in ret:
        for x in kb.expr(c.args[1]).walk():
            if x.k == 'agg' and x.d == 'closure' and x.a in prog.bodies:
                cb = prog.bodies[x.a]
                if L.calls_decl(cb, 'cmp::PartialEq::ne'):
                    okret = True
    ctx.ob('REMOVAL', 'bucket:retain-on-id', same_idx and okret and bool(rr.calls(r'KBucket::remove_node$')), rr.where(),
           'routing removal uses the insertion bucket index (%s) and retains entries whose id differs (%s)' % (same_idx, okret))
    # who may put a peer into a bucket: only KBucket::add_node grows `nodes`; nothing else (in particular no removal
    # path, no promotion from a side list) re-inserts a peer, so a removed peer stays out until add_node is called again
    GROW = r'Vec::<.*>::(push|insert|extend|append|extend_from_slice|resize|resize_with|splice)$|VecDeque::<.*>::(push_back|push_front|insert|extend|append)$|Extend<.*>>::extend$'
    ngrow = 0
    for wb, wbi, kind, thing in L.field_writes(prog, KB, 'nodes'):
        if kind == 'aggregate':
            continue
        if kind == 'assign':
            n = sum(1 for o in ctx.obls if o.key.startswith('bucket:nodes-writer:%s' % wb.id))
            ctx.ob('REMOVAL', 'bucket:nodes-writer:%s#%d' % (wb.id, n), wb.id == KB + '::new', wb.where(thing.get('ln')),
                   'KBucket.nodes is assigned as a whole in %s' % wb.id)
            continue
        if kind != 'mut-borrow':
            continue
        tmp = thing['d'][0]
        for cs in wb.calls(GROW):
            used = set()
            for a in cs.args[:1]:
                if 'p' in a:
                    used |= wb.backward_locals([a['p'][0]])
            if tmp in used:
                ngrow += 1
                n = sum(1 for o in ctx.obls if o.key.startswith('bucket:nodes-grows:%s' % wb.id))
                okw = wb.id == KB + '::add_node'
                ctx.ob('REMOVAL', 'bucket:nodes-grows:%s#%d' % (wb.id, n), okw, cs.where(),
                       ('%s adds an entry to KBucket.nodes' % '::'.join(wb.id.rsplit('::', 2)[-2:])) +
                       ('' if okw else ': a peer enters the routing table outside add_node — an evicted or failed peer can come back without being added again'))
    if ngrow == 0:
        ctx.ob('REMOVAL', 'bucket:nodes-grows', False, 'src/dht/core_engine.rs', 'no site growing KBucket.nodes recognised (anchor)')
    ctx.floor('REMOVAL', 4)

    # ---- 4. selector
    swc = prog.body(SEL + '::select_peers_with_config')
    ctx.touch(swc, len(swc.calls()))
    # the scoring step, in whichever form it is written: a filter_map closure (Some = emit, None = skip) or a loop in
    # select_peers_with_config that pushes (candidate.clone(), score) and `continue`s to skip
    fm = None
    for c in swc.calls(r'Iterator::filter_map$|Iterator>::filter_map$'):
        for x in swc.expr(c.args[1]).walk():
            if x.k == 'agg' and x.d == 'closure' and x.a in prog.bodies and prog.bodies[x.a].calls(r'::compute_score$'):
                fm = prog.bodies[x.a]
    region = None
    if fm is not None:
        emits = [(bb, fm.expr(st['r']['ops'][0])) for bb, st in L.success_returns(fm)]
        region = (fm, emits, L.rejecting_conds(fm), lambda e: any(x.k == 'param' for x in e.walk()))
    else:
        scs = swc.calls(r'::compute_score$')
        loops = [(h, ns) for h, ns in L.source_loops(swc) if scs and scs[0].bb in ns]
        if loops:
            h, ns = min(loops, key=lambda x: len(x[1]))
            pushes = [c for c in swc.calls(r'Vec::<.*>::push$') if c.bb in ns and swc.expr(c.args[1]).mentions_call(r'::compute_score$') is not None]
            emits = [(c.bb, swc.expr(c.args[1])) for c in pushes]
            rej = []
            for n, e in swc.edge_nodes().items():
                if e[0] not in ns:
                    continue
                reach = swc.reachable_from([n], {h})
                if not any(bb in reach for bb, _v in emits):
                    rej.append(F.edge_cond(swc, e))
            region = (swc, emits, rej, lambda e: L.mentions_next(e) is not None)
    if region is None or not region[1]:
        ctx.ob('SELECTOR', 'filter-closure', False, swc.where(), 'scoring step (filter_map closure or loop around compute_score) not found')
    else:
        fm, emits, rej, from_elem = region
        ctx.touch(fm, len(fm.calls()))
        ex = any(L.cmp_is(c, lambda e: e.mentions_call(r'::get_trust_for_node$') is not None or 'trust' in e.show(), 'Lt', L.ends('.min_trust_threshold')) for c in rej)
        # that rejection is conditional on exclude_untrusted being true
        exg = False
        for n, e in fm.edge_nodes().items():
            c = F.edge_cond(fm, e)
            if c.kind == 'cmp' and L.cmp_is(c, lambda ee: True, 'Lt', L.ends('.min_trust_threshold')):
                dc = F.dominating_conds(fm, e[0])
                if any(x.kind == 'bool' and x.truth and x.expr.show().endswith('.exclude_untrusted') for x in dc):
                    exg = True
        nan = any(c.kind == 'bool' and c.truth and c.expr.mentions_call(r'f64.*::is_nan$') is not None for c in rej)
        clone = False
        before_score = False
        for bb, v in emits:
            cl = v.mentions_call(r'Clone>::clone$')
            clone = cl is not None and from_elem(cl)
        sc = fm.calls(r'::compute_score$')
        if sc:
            # exclusion test dominates scoring
            before_score = any(L.cmp_is(c, lambda ee: True, 'Ge', L.ends('.min_trust_threshold')) or (c.kind == 'bool' and not c.truth and c.expr.show().endswith('.exclude_untrusted'))
                               for c in F.dominating_conds(fm, sc[0].bb))
        ctx.ob('SELECTOR', 'exclude-untrusted', ex and exg, fm.where(),
               'a candidate is skipped when exclude_untrusted && trust < min_trust_threshold (%s, guarded by the flag: %s)' % (ex, exg))
        ctx.ob('SELECTOR', 'nan-dropped', nan, fm.where(), 'NaN scores are skipped: %s' % nan)
        ctx.ob('SELECTOR', 'emits-candidate-clone', clone, fm.where(), 'what is emitted is a clone of the candidate being scored: %s' % clone)
    tk = [c for c in swc.calls(r'Iterator::take$|Iterator>::take$')]
    oktk = bool(tk) and swc.expr(tk[0].args[1]).strip().show() == 'count' and swc.expr(tk[0].args[0]).mentions_call(r'sort_by') is None
    srt = swc.calls(r'<impl \[T\]>::sort_by$|sort_by$')
    desc = False
    for c in srt:
        for x in swc.expr(c.args[1]).walk():
            if x.k == 'agg' and x.d == 'closure' and x.a in prog.bodies:
                cb = prog.bodies[x.a]
                for cc in cb.calls(r'f64.*::total_cmp$|::partial_cmp$|::cmp$'):
                    a0 = cb.expr(cc.args[0]).show()
                    # closure params: _2 = a, _3 = b  -> descending when b is the receiver
                    nb = cb.local_name(3) or 'arg3'
                    desc = nb in a0 or 'arg3' in a0 or '_3' in a0
    ctx.ob('SELECTOR', 'take-count-of-desc-sort', oktk and desc and bool(srt), swc.where(), 'result = take(count) (%s) of scores sorted descending (%s)' % (oktk, desc))
    fs = prog.body('dht::trust_peer_selector::TrustSelectionConfig::for_storage')
    vals = {}
    for bi, si, s in fs.stmts():
        if s['r']['k'] == 'agg' and s['r'].get('adt', '').endswith('TrustSelectionConfig'):
            vals = {f: fs.expr(o).const_value() for f, o in zip(s['r']['fields'], s['r']['ops'])}
    ctx.ob('SELECTOR', 'for_storage-table', vals.get('exclude_untrusted') is True and vals.get('min_trust_threshold') == 0.2, fs.where(),
           'for_storage: exclude_untrusted=%s min_trust_threshold=%s (documented: true, 0.2)' % (vals.get('exclude_untrusted'), vals.get('min_trust_threshold')))
    ssp = prog.body(SEL + '::select_storage_peers')
    okc = any('storage_config' in ssp.expr(c.args[-1]).show() for c in ssp.calls(r'::select_peers_with_config$'))
    nw = prog.body(SEL + '::new')
    oknew = False
    for bi, si, s in nw.stmts():
        if s['r']['k'] == 'agg' and 'TrustAwarePeerSelector' in s['r'].get('adt', ''):
            op = L.agg_field_operand(s, 'storage_config')
            oknew = op is not None and nw.expr(op).mentions_call(r'TrustSelectionConfig::for_storage$') is not None
    ctx.ob('SELECTOR', 'storage-uses-storage-config', okc and oknew, ssp.where(), 'select_storage_peers passes self.storage_config (%s), which `new` sets to for_storage() (%s)' % (okc, oknew))
    # engine side, by role: the engine routine(s) that hand candidates to the selector's storage / query method
    for name, want in (('select_storage_peers', SEL_STORAGE), ('select_query_peers', SEL_QUERY)):
        found = False
        for eb in prog.bodies.containing('TrustAwarePeerSelector'):
            if not eb.root.startswith(ENG + '::'):
                continue
            b = prog.inl(eb.id, keep=r'TrustAwarePeerSelector|KademliaRoutingTable::find_closest_nodes$') if (not eb.parent or eb.is_coroutine) else eb
            sc = [c for c in b.calls() if want.search(c.callee)]
            if not sc:
                continue
            found = True
            ctx.touch(b, len(b.calls()))
            fb = [c for c in b.calls(r'Iterator::take$|Iterator>::take$')]
            cnt_params = [i for i in range(1, prog.bodies[eb.root].argc + 1) if b.local_ty(i) == 'usize'] if eb.root in prog.bodies else []

            def is_count(e):
                st_ = e.strip()
                return st_.show() == 'count' or (st_.k == 'param' and (st_.a in cnt_params or st_.b == 'count'))
            okfb = bool(fb) and any(is_count(b.expr(f_.args[1])) and b.expr(f_.args[0]).mentions_call(r'::find_closest_nodes$') is not None for f_ in fb)
            oksel = any(is_count(b.expr(c.args[3])) and b.expr(c.args[2]).mentions_call(r'::find_closest_nodes$') is not None for c in sc if len(c.args) > 3)
            ctx.ob('SELECTOR', 'engine:%s' % name, okfb and oksel, b.where(),
                   '%s: with a selector -> the selector method over (key, find_closest_nodes(..), count): %s; without -> take(count) of the distance order: %s' % (
                       b.root.rsplit('::', 1)[-1], oksel, okfb))
            break
        if not found:
            ctx.ob('SELECTOR', 'engine:%s' % name, False, 'src/dht/core_engine.rs', 'no engine routine hands candidates to the selector\'s %s method (anchor)' % ('storage' if 'storage' in name else 'query'))
    st = prog.async_body(ENG + '::store')
    okst = prog.reaches_call(st.root, lambda cs: bool(SEL_STORAGE.search(cs.callee)), depth=3)
    ctx.ob('SELECTOR', 'engine:store-uses-storage-selection', okst, st.where(), 'DhtCoreEngine::store picks targets through the selector\'s storage method: %s' % okst)
    ctx.floor('SELECTOR', 8)

    # ---- 5. rank key must not be a lossy projection of the distance
    cs_ = prog.body(SEL + '::compute_score')
    ctx.touch(cs_)
    lossy = []
    for bi, si, s in cs_.stmts():
        r = s['r']
        if r['k'] == 'cast' and r['ck'] == 'IntToFloat':
            src = cs_.expr(r['o'])
            dcall = src.mentions_call(r'::xor_distance$')
            if dcall is not None:
                sty = L.operand_ty(cs_, r['o'])
                lossy.append('distance (%s) is cast to f64 (53-bit mantissa) at line %s' % (sty, s.get('ln')))
    xd = prog.bodies.get('dht::trust_peer_selector::xor_distance')
    if xd is not None:
        ctx.touch(xd)
        for r in xd.aggregates():
            if str(r.get('adt', '')).endswith('Range') and r['ops']:
                hi = xd.expr(r['ops'][1]).const_value()
                if hi is not None and hi < 32:
                    lossy.append('xor_distance folds only the first %d of 32 id bytes' % hi)
    uses_key = bool(cs_.calls(r'::xor_distance$')) or any(True for _ in [])
    if not cs_.calls(r'::xor_distance$') and not lossy:
        # some other distance source: it must be a full-width comparison-preserving value
        pass
    ctx.ob('RANK-KEY', 'score-distance-exact', not lossy, cs_.where(),
           'the score\'s distance term is not a lossy projection of the 256-bit distance' if not lossy else
           'rank key loses distance information: %s — peers whose ids differ only in low-order bytes get equal scores, so a farther peer listed first outranks a closer one of equal trust' % '; '.join(lossy))
    # ---- 6. without trust selection the choice is the closest candidates in distance order: that is the routing table's
    # closest-node answer, whose exactness rules live in C02 (scan of all buckets, ascending sort on the full 32-byte XOR
    # distance, take(count)); they are evaluated here too because this clause of C16 stands or falls with them
    from props import c02 as C02
    import runner as _runner
    sub = _runner.Ctx('C02', prog, ctx.tier, ctx.progs)
    try:
        C02.run(sub)
    except Exception as e:  # pragma: no cover - fail closed
        ctx.ob('CLOSEST-ORDER', 'closest:rules-ran', False, '-', 'the closest-node rules could not be evaluated: %s' % e)
        return
    n6 = 0
    for o in sub.obls:
        if o.rule in ('ORDER', 'TOTAL-SCAN'):
            n6 += 1
            ctx.ob('CLOSEST-ORDER', 'closest:%s' % o.key, o.ok, o.where, o.detail, entry=o.entry)
    ctx.floor('CLOSEST-ORDER', 6)
