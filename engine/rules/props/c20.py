"""C20 — concurrent DHT operations and shutdown always complete; nothing runs after (necessary conditions)."""
import json
import re
import facts as F
import lib as L

EXPLANATION = (
    "Static decision of necessary structural conditions of C20 on MIR of dht_network_manager.rs, dht/core_engine.rs and "
    "transport_handle.rs: (1) LOCK-ORDER — the graph `A -> B when B is acquired (also through callees, depth-bounded) while a "
    "guard of A is live` over the lock fields of DhtNetworkManager, DhtCoreEngine and TransportHandle is acyclic and has no "
    "dht_peers -> dht edge (documented order dht -> dht_peers); (2) AWAIT-UNDER-LOCK — no call reaching a network wait "
    "(TransportHandle::send_message / connect_peer / send_request, a response wait) is made while a guard of dht, dht_peers, "
    "peers or active_requests is live; (3) BOUNDED-WAIT — every await of a oneshot receiver and of the raw transport send / "
    "connect futures is the argument of tokio::time::timeout; the inbound handler runs under timeout(REQUEST_TIMEOUT); (4) "
    "SHUTDOWN — every loop in a task spawned by the manager polls the shutdown token, its JoinHandle is stored in a slot that "
    "stop() takes and awaits after cancelling; (5) NO-SEND-AFTER-STOP — the request sender refuses to send once the shutdown "
    "token is cancelled."
    ' NO-SEND-AFTER-STOP also requires that no await point lies between the shutdown check and the transport send.'
    ' SHUTDOWN also decides stop:every-return-after-cancel (with leave_network spliced into stop(), no return of stop() is reachable by variant-tracking reachability without shutdown.cancel(), unless the token is found already cancelled) and stop:every-return-after-joins (after the cancel every path takes both task handles).'
)
NOT_DECIDED = "actual absence of deadlock / starvation under every schedule; the time bound of stop() itself (leave_network awaits one request timeout per connected peer, sequentially)"
ASSUMPTIONS = ["tokio RwLock/Mutex are fair enough that an acyclic order suffices", "tokio::time::timeout fires"]

MGR = 'dht_network_manager::DhtNetworkManager'
ENG = 'dht::core_engine::DhtCoreEngine'
TH = 'transport_handle::TransportHandle'
FILES = ['src/dht_network_manager.rs', 'src/dht/core_engine.rs', 'src/transport_handle.rs']
NETWAIT = re.compile(r'(transport_handle::TransportHandle::(send_message|connect_peer|send_request|send_response)|'
                     r'DhtNetworkManager::(wait_for_response|send_dht_request|dial_candidate)|DualStackNetworkNode::(send_to_peer|connect))')
# (lock, callee) pairs that are statically reachable but infeasible / by-design, with the reason
ALLOW = {
    ('dht', ENG + '::retrieve'): 'the core engine\'s own transport is never configured by the manager (set_transport has no caller), so retrieve() answers from the local store; its remote branch is bounded by DHT_QUERY_TIMEOUT',
}


def exec_base(prog, callee):
    """the function whose body a call executes: a poll of `f::{closure#0}` runs async fn f"""
    if callee.endswith('::{closure#0}'):
        base = callee[:-len('::{closure#0}')]
        if base in prog.bodies and prog.bodies[base].is_async:
            return base
    return callee


def lock_id(e):
    st = e.strip()
    if st.k == 'field':
        return st.b
    if st.k == 'param' and st.b:
        return 'captured::' + st.b
    if st.k in ('let', 'local') and st.b:
        return 'local::' + st.b
    return st.show()[-60:]


def short(lid):
    return lid.rsplit('::', 1)[-1]


def live_blocks(b, g):
    return b.reachable_from([g.def_bb], set(g.drops)) | set(g.drops)


def run(ctx):
    prog = ctx.prog
    bodies = [b for b in prog.bodies.in_files(FILES) if not b.derived]
    for b in bodies:
        ctx.touch(b, len(b.calls()))

    # ---- summaries: locks a function may acquire (transitively), and whether it may wait on the network
    acq_memo = {}

    def acquires(fid, depth=3, seen=None):
        seen = seen if seen is not None else set()
        if fid in seen or fid not in prog.bodies:
            return set()
        key = (fid, depth)
        if key in acq_memo:
            return acq_memo[key]
        seen.add(fid)
        out = set()
        for i in prog.family(fid):
            bb = prog.bodies[i]
            if bb.file not in FILES:
                continue
            for c in bb.calls(L.LOCK_ACQ):
                if c.args:
                    out.add(lock_id(bb.expr(c.args[0])))
            if depth > 0:
                for c in bb.calls():
                    base = exec_base(prog, c.callee)
                    if base in prog.bodies and prog.bodies[base].file in FILES and base != fid:
                        out |= acquires(base, depth - 1, seen)
        acq_memo[key] = out
        return out

    net_memo = {}

    def waits_on_network(fid, depth=3, seen=None):
        seen = seen if seen is not None else set()
        if fid in seen or fid not in prog.bodies:
            return None
        if (fid, depth) in net_memo:
            return net_memo[(fid, depth)]
        seen.add(fid)
        res = None
        for i in prog.family(fid):
            bb = prog.bodies[i]
            for c in bb.calls():
                if NETWAIT.search(c.callee) or (c.dyn_trait and c.dyn_trait.endswith('NetworkSender')):
                    res = c.callee
                    break
                base = exec_base(prog, c.callee)
                if depth > 0 and base in prog.bodies and prog.bodies[base].file in FILES:
                    r = waits_on_network(base, depth - 1, seen)
                    if r:
                        res = r
                        break
            if res:
                break
        net_memo[(fid, depth)] = res
        return res

    # ---- 1+2. lock order / await under lock
    edges = {}
    nguards = 0
    under = []
    for b in bodies:
        gs = L.guards(b)
        if not gs:
            continue
        acqs = [(c, lock_id(b.expr(c.args[0]))) for c in b.calls(L.LOCK_ACQ) if c.args]
        for g in gs:
            nguards += 1
            lid = lock_id(g.lock_expr)
            live = live_blocks(b, g)
            for c, l2 in acqs:
                if c.bb == g.acq.bb or c.bb not in live or not b.dominates(g.def_bb, c.bb):
                    continue
                edges.setdefault((lid, l2), []).append('%s:%s' % (b.file, c.ln))
            for c in b.calls():
                if c.bb not in live or not b.dominates(g.def_bb, c.bb) or c.bb == g.acq.bb:
                    continue
                base = exec_base(prog, c.callee)
                if base == b.root or base in prog.family(b.root):
                    continue
                if base in prog.bodies and prog.bodies[base].file in FILES:
                    # a poll of the callee's coroutine executes it; the plain call of an async fn only builds the future
                    if prog.bodies[base].is_async and not c.callee.endswith('::{closure#0}'):
                        continue
                    for l2 in acquires(base):
                        edges.setdefault((lid, l2), []).append('%s:%s via %s' % (b.file, c.ln, base.rsplit('::', 1)[-1]))
                    if short(lid) in ('dht', 'dht_peers', 'peers', 'active_requests', 'active_operations'):
                        w = waits_on_network(base)
                        if w:
                            under.append((short(lid), base, b, c, w))
                elif NETWAIT.search(c.callee) and short(lid) in ('dht', 'dht_peers', 'peers', 'active_requests', 'active_operations'):
                    under.append((short(lid), c.callee, b, c, c.callee))
    # self edges through re-entrant paths are reported as cycles of length 1 only for non-reentrant locks acquired twice
    graph = {}
    for (a, bnode), sites in edges.items():
        if a == bnode:
            continue
        graph.setdefault(a, set()).add(bnode)
    cyc = find_cycle(graph)
    ctx.ob('LOCK-ORDER', 'acyclic', cyc is None, '-',
           'lock-order graph over %d guards, %d edges is acyclic' % (nguards, sum(len(v) for v in graph.values())) if cyc is None else
           'lock-order cycle: %s (sites: %s)' % (' -> '.join(short(x) for x in cyc), '; '.join(edges.get((cyc[i], cyc[i + 1]), ['?'])[0] for i in range(len(cyc) - 1))))
    bad = [(a, bnode) for (a, bnode) in edges if short(a) == 'dht_peers' and short(bnode) == 'dht' and 'DhtNetworkManager' in a + bnode]
    ctx.ob('LOCK-ORDER', 'dht-before-dht_peers', not bad, '-',
           'no acquisition of `dht` while a `dht_peers` guard is live (documented order dht -> dht_peers)' if not bad else
           '`dht` is acquired under a live `dht_peers` guard at %s' % edges[bad[0]][0])
    same = [(a, s) for (a, bnode), s in edges.items() if a == bnode and ('RwLock' in a or True)]
    ctx.ob('LOCK-ORDER', 'no-reacquire-under-own-guard', not same, '-',
           'no lock is acquired again while its own guard is live in the same task' if not same else
           '%s is acquired while already held at %s' % (short(same[0][0]), same[0][1][0]))
    ctx.stats['lock_edges'] = {'%s->%s' % (short(a), short(bn)): len(s) for (a, bn), s in edges.items()}
    ctx.note('lock-order edges: %s' % ', '.join(sorted('%s->%s' % (short(a), short(bn)) for (a, bn) in edges)))
    seen = set()
    n_under = 0
    for lk, callee, b, c, w in under:
        key = 'await-under:%s:%s@%s' % (lk, callee.rsplit('::', 2)[-1] if '{closure' in callee else callee.rsplit('::', 1)[-1], b.root)
        if key in seen:
            continue
        seen.add(key)
        n_under += 1
        allow = ALLOW.get((lk, callee))
        ctx.ob('AWAIT-UNDER-LOCK', key, allow is not None, c.where(),
               ('a guard of `%s` is live across %s, which can wait on the network (%s)' % (lk, callee, w)) + (' — allow-listed: %s' % allow if allow else ''), entry=b.root)
    ctx.ob('AWAIT-UNDER-LOCK', 'scan', True, '-', '%d guard live ranges scanned; %d calls that can wait on the network found under a dht / dht_peers / peers / active_requests / active_operations guard' % (nguards, n_under))
    ctx.floor('LOCK-ORDER', 3)

    # ---- 3. bounded waits
    nwait = 0
    for b in bodies:
        for c in b.calls():
            if not c.declared.endswith('Future::poll'):
                continue
            e = F.Expr('call', c.callee, [b.expr(a) for a in c.args], c)
            aw = L.awaited_in_expr(b, e) if False else None
            # the awaited future: Pin::new_unchecked(&mut awaitee)
            fut = F._awaitee(b, b.expr(c.args[0]), 30)
            fs = fut.strip() if fut is not None else None
            if fs is None:
                continue
            ty = None
            for x in fs.walk():
                if x.k in ('let', 'local'):
                    ty = b.local_ty(x.a)
                    break
            is_rx = (ty is not None and 'oneshot::Receiver' in ty) or (fs.k in ('let', 'local', 'param') and 'oneshot::Receiver' in (b.local_ty(fs.a) if fs.k != 'param' else ''))
            raw = fs.k == 'call' and re.search(r'DualStackNetworkNode::(send_to_peer_string_optimized|send_to_peer|connect)', fs.a or '')
            if is_rx and not (fs.k == 'call' and 'timeout' in fs.a):
                if fs.k == 'call':
                    continue
                nwait += 1
                ctx.ob('BOUNDED-WAIT', 'rx-await@%s' % b.root, False, c.where(), 'a oneshot receiver is awaited directly (no timeout) in %s' % b.id)
            if raw and (b.root.startswith(MGR) or b.root in (TH + '::send_message', TH + '::connect_peer', TH + '::send_request', TH + '::send_response')):
                nwait += 1
                ctx.ob('BOUNDED-WAIT', 'raw-send-await@%s' % b.root, False, c.where(), 'the raw transport future %s is awaited without tokio::time::timeout' % fs.a)
    # positive instances: the timeouts that exist
    for fid, what in ((MGR + '::wait_for_response', 'oneshot::Receiver'), (TH + '::send_message', 'send_to_peer'), (MGR + '::dial_candidate', 'connect_peer'),
                      (TH + '::send_request', 'oneshot'), (ENG + '::query_node_for_key', 'oneshot')):
        b = prog.inl(fid)       # the wait may sit in a same-file helper of the entry point
        tos = b.calls(r'tokio::time::timeout$|time::timeout::timeout$')
        okt = False
        for t in tos:
            a = b.expr(t.args[1])
            ty = L.operand_ty(b, t.args[1]) or ''
            if what in a.show() or what in ty or any(what in b.local_ty(x.a) for x in a.walk() if x.k in ('let', 'local')):
                okt = True
        ctx.ob('BOUNDED-WAIT', 'timeout:%s' % fid.rsplit('::', 1)[-1], okt, b.where(), '%s waits for %s inside tokio::time::timeout: %s' % (fid.rsplit('::', 1)[-1], what, okt))
    # inbound handler under timeout, permit held in a local
    hb = None
    for b in bodies:
        if b.root == MGR + '::start_network_event_handler' and any(c.callee.endswith('::handle_dht_message') for c in b.calls()):
            hb = b
    if hb is None:
        ctx.ob('BOUNDED-WAIT', 'handler-timeout', False, '-', 'per-message handler task not found (anchor)')
    else:
        tos = hb.calls(r'tokio::time::timeout$')
        okh = any(hb.expr(t.args[1]).mentions_call(r'::handle_dht_message$') is not None and 'REQUEST_TIMEOUT' in hb.expr(t.args[0]).show() for t in tos)
        perm = [l for l, d in enumerate(hb.locals) if 'SemaphorePermit' in d['ty'] and d.get('n')]
        okp = bool(perm) and any(t['k'] == 'drop' and t['p'] == [perm[0]] for _, t in hb.terms())
        ctx.ob('BOUNDED-WAIT', 'handler-timeout', okh and okp, hb.where(), 'inbound handler runs under timeout(REQUEST_TIMEOUT, handle_dht_message) (%s) holding its permit in a local dropped at scope end (%s)' % (okh, okp))
    ctx.floor('BOUNDED-WAIT', 5)

    # ---- 4. shutdown
    spawned = []
    for b in bodies:
        if not b.root.startswith(MGR + '::'):
            continue
        for c in b.calls(r'tokio::spawn$|task::spawn::spawn$'):
            fut = b.expr(c.args[0])
            for x in fut.walk():
                if x.k == 'agg' and x.d in ('coroutine', 'closure') and x.a in prog.bodies:
                    spawned.append((b, c, prog.bodies[x.a]))
    nloops = 0
    for parent, c, sb in spawned:
        loops = L.source_loops(sb)
        # only long-running loops: those that contain an await
        long_loops = [(h, ns) for h, ns in loops if any(t['k'] == 'yield' and bi in ns for bi, t in sb.terms())]
        if not long_loops:
            continue
        outer = max(long_loops, key=lambda x: len(x[1]))
        nloops += 1
        canc = [cc for cc in sb.calls(r'CancellationToken::cancelled$') if cc.bb in outer[1] or sb.dominates(cc.bb, outer[0])]
        in_loop = [cc for cc in sb.calls(r'CancellationToken::cancelled$') if cc.bb in outer[1]]
        ctx.ob('SHUTDOWN', 'loop-polls-token@%s' % sb.root, bool(in_loop), sb.where(), 'the spawned loop of %s polls shutdown.cancelled() on every iteration: %s' % (sb.root.rsplit('::', 1)[-1], bool(in_loop)))
        # handle stored in a slot
        hl = c.dest[0] if c.dest else None
        stored = False
        for bi, si, s in parent.stmts():
            if s['r']['k'] == 'agg' and s['r'].get('var') == 'Some' and s['r']['ops'] and 'p' in s['r']['ops'][0]:
                if hl in parent.backward_locals([s['r']['ops'][0]['p'][0]]):
                    stored = True
        ctx.ob('SHUTDOWN', 'handle-stored@%s' % sb.root, stored, c.where(), 'its JoinHandle is stored in a handle slot: %s' % stored)
    st = prog.inl(MGR + '::stop', keep=r'::(leave_network|signal_shutdown)$')
    canc = st.calls(r'CancellationToken::cancel$')
    takes = [c for c in st.calls(r'Option::<.*>::take$') if 'handle' in st.expr(c.args[0]).show()]
    joins = [c for c in st.calls() if c.declared.endswith('Future::poll') and 'JoinHandle' in st.expr(c.args[0]).show()]
    okorder = bool(canc) and len(takes) >= 2 and all(st.dominates(canc[0].bb, t.bb) for t in takes)
    okjoin = len(joins) >= 2 or len([1 for l in st.locals if 'JoinHandle' in l['ty']]) >= 2
    leave = [c for c in st.calls() if c.callee.endswith('::leave_network')]
    okleave = bool(leave) and bool(canc) and st.dominates(leave[0].bb, canc[0].bb)
    ctx.ob('SHUTDOWN', 'stop:cancel-then-join', okorder and okjoin, st.where(), 'stop() cancels the token before taking and awaiting both task handles: %s / %s' % (okorder, okjoin))
    ctx.ob('SHUTDOWN', 'stop:leave-before-cancel', okleave, st.where(), 'leave messages are sent before the token is cancelled: %s' % okleave)
    sig = [c for c in st.calls() if c.callee.endswith('::signal_shutdown')]
    ctx.ob('SHUTDOWN', 'stop:signals-core-engine', bool(sig), st.where(), 'stop() signals the core engine\'s maintenance task: %s' % bool(sig))
    # stop() shuts down on EVERY path: no return of stop() — also not an error return of an earlier step such as the leave
    # phase — is reachable without cancelling the token and taking both task handles. (The `?` after leave_network is harmless
    # only as long as leave_network cannot fail: with it spliced in, its error returns — if it has any — are followed.)
    st2 = prog.inl(MGR + '::stop', keep=r'::(signal_shutdown|send_dht_request)$')
    canc2 = st2.calls(r'CancellationToken::cancel$')
    takes2 = [c for c in st2.calls(r'Option::<.*>::take$') if 'JoinHandle' in (L.operand_ty(st2, c.args[0]) or '')]
    rets2 = st2.return_blocks()
    if not canc2 or len(takes2) < 2 or not rets2:
        ctx.anchor_fail('SHUTDOWN', 'token cancel / two handle takes / return in stop()')
    else:
        par = {}
        # a path on which the token is already found cancelled (an idempotent second stop()) counts as cancelled
        already = set()
        for n_, e_ in st2.edge_nodes().items():
            cd_ = F.edge_cond(st2, e_)
            if cd_.kind == 'bool' and cd_.truth and cd_.expr.mentions_call(r'CancellationToken::is_cancelled$') is not None:
                already.add(n_)
        reach = st2.reachable_tracking([0], {c.bb for c in canc2} | already, parents=par)
        esc = [r for r in rets2 if r in reach]
        via = None
        if esc:
            u = esc[0]
            for _ in range(4000):
                if u is None:
                    break
                if u < len(st2.blocks) and st2.blocks[u]['t']['k'] == 'call' and 'from_residual' in (st2.blocks[u]['t'].get('f', {}).get('r') or st2.blocks[u]['t'].get('f', {}).get('fn') or ''):
                    via = st2.blocks[u]['t'].get('ln')
                    break
                u = par.get(u)
        ctx.ob('SHUTDOWN', 'stop:every-return-after-cancel', not esc, st2.where(via),
               'no return of stop() is reachable without shutdown.cancel() (leave_network spliced in: its error returns are followed)' if not esc else
               'stop() can return without cancelling the shutdown token (through the error return at line %s): the background tasks keep running and '
               'send_dht_request keeps sending after stop() has returned' % via, entry=MGR + '::stop')
        okt = True
        for t in takes2:
            ok_t, _w = L.must_pass(st2, [c.target for c in canc2 if c.target is not None], [t.bb], rets2)
            okt = okt and ok_t
        ctx.ob('SHUTDOWN', 'stop:every-return-after-joins', okt, st2.where(),
               'after the cancel every path to a return of stop() takes both task handles: %s' % okt, entry=MGR + '::stop')
    ctx.floor('SHUTDOWN', 8)

    # ---- 5. no request after stop
    sd = prog.inl(MGR + '::send_dht_request')
    sends = [c for c in sd.calls() if c.callee == TH + '::send_message']
    okg = False
    for c in sends:
        for cd in F.dominating_conds(sd, c.bb):
            if cd.kind == 'bool' and not cd.truth and cd.expr.mentions_call(r'CancellationToken::is_cancelled$') is not None and 'shutdown' in cd.expr.show():
                okg = True
    # ... and nothing can park the request between that check and the send: an await point (a semaphore, a lock, a sleep)
    # in between lets stop() run to completion while the request waits, and the request is sent afterwards
    parked = []
    for c in sends:
        for n_, e_ in sd.edge_nodes().items():
            cd = F.edge_cond(sd, e_)
            if cd.kind == 'bool' and not cd.truth and cd.expr.mentions_call(r'CancellationToken::is_cancelled$') is not None and sd.dominates(n_, c.bb):
                reach = sd.reachable_from([n_], {c.bb})
                for bi_, t_ in sd.terms():
                    if t_['k'] == 'yield' and bi_ in reach and c.bb in sd.reachable_from([bi_]):
                        parked.append((bi_, t_.get('ln')))
    ctx.ob('NO-SEND-AFTER-STOP', 'send_dht_request:no-wait-between-check-and-send', okg and not parked, sd.where(parked[0][1] if parked else None),
           'no await point lies between the shutdown check and the transport send' if not parked else
           'an await point (line %s) lies between the shutdown check and the transport send: a request that passed the check can wait there while stop() '
           'completes and is sent afterwards' % parked[0][1], entry=MGR + '::send_dht_request')
    ctx.ob('NO-SEND-AFTER-STOP', 'send_dht_request:gated', okg and bool(sends), sd.where(),
           'the transport send in send_dht_request is dominated by !shutdown.is_cancelled()' if okg else
           'send_dht_request never looks at the shutdown token: put / get / lookup loops that are in flight keep issuing requests after stop() has returned')


def find_cycle(graph):
    color = {}
    stack = []

    def dfs(u):
        color[u] = 1
        stack.append(u)
        for v in graph.get(u, ()):
            if color.get(v) == 1:
                return stack[stack.index(v):] + [v]
            if color.get(v) is None:
                r = dfs(v)
                if r:
                    return r
        stack.pop()
        color[u] = 2
        return None
    for n in list(graph):
        if color.get(n) is None:
            r = dfs(n)
            if r:
                return r
    return None
