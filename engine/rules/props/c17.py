"""C17 — placement returns exactly k distinct diverse candidates or an error (structural clauses)."""
import json
import re
import facts as F
import lib as L

EXPLANATION = (
    "Static decision of structural clauses of C17 on MIR of src/placement/algorithms.rs: (1) VALIDATED — the Ok return of "
    "select_nodes is dominated by the Ok edge of validate_selection on the selection returned; (2) ROUND — the selection loop "
    "iterates the range 0..replication_factor, its only exit that can reach Ok is range exhaustion, and every full iteration "
    "pushes exactly the sampled node and removes that same node from the remaining candidates; (3) PROVENANCE — the sampled "
    "node comes from sample_nodes over weights computed from the remaining candidates, sample_nodes returns take(k) of keys "
    "built one-to-one from its input, rejecting k > len and non-positive weights; (4) TABLE — validate_selection rejects with "
    "the documented caps (2 per region, 3 per ASN, < 100/2 km); (5) NO-PANIC — no unwrap/expect/explicit panic/index site in "
    "the placement algorithm bodies."
)
NOT_DECIDED = "statistical bias of the sampler; debug-build arithmetic overflow asserts; haversine distance arithmetic"
ASSUMPTIONS = ["HashSet::remove / Vec::push behave as documented", "fastrand::f64 returns values in [0,1)"]

FILE = 'src/placement/algorithms.rs'
STRAT = 'placement::algorithms::WeightedPlacementStrategy'
SAMPLER = 'placement::algorithms::WeightedSampler'
DIV = 'placement::algorithms::DiversityEnforcer'


def run(ctx):
    prog = ctx.prog
    prog.adt(STRAT)
    bodies = list(prog.bodies.in_files([FILE]))
    sel = None
    for b in bodies:
        ctx.touch(b, len(b.calls()))
        if b.root.endswith('PlacementStrategy>::select_nodes') and b.is_coroutine:
            sel = b
    if sel is None:
        raise F.AnchorMissing('PlacementStrategy::select_nodes for WeightedPlacementStrategy')

    # ---- 1. validated
    succ = L.success_returns(sel)
    vcalls = sel.calls(r'DiversityEnforcer::validate_selection$')
    ok = False
    same = False
    for cs in vcalls:
        te = F.try_edges(sel, cs)
        if te and te[0] is not None and succ and all(sel.dominates(te[0], bb) for bb, _ in succ):
            ok = True
            # the validated vector is the one mapped into the decision
            vl = set(x.a for x in sel.expr(cs.args[1]).walk() if x.k in ('let', 'local'))
            for bb, st in succ:
                dec = sel.expr(st['r']['ops'][0])
                dl = set(x.a for x in dec.walk() if x.k in ('let', 'local'))
                for x in dec.walk():
                    if x.k == 'agg' and str(x.a).endswith('PlacementDecision::PlacementDecision') and x.c:
                        fm = dict(zip(x.c, x.b))
                        sn = fm.get('selected_nodes')
                        if sn is not None and set(y.a for y in sn.walk() if y.k in ('let', 'local')) & vl:
                            same = True
    ctx.ob('VALIDATED', 'select_nodes:ok-after-validation', ok and same, sel.where(),
           'Ok(decision) is%s dominated by validate_selection Ok%s' % ('' if ok else ' NOT', ' on the vector that becomes decision.selected_nodes' if same else ' (validated vector is not the returned one)'))

    # ---- 2. rounds
    loops = L.natural_loops(sel)
    # the selection loop: contains the push into the selection
    pushes = sel.calls(r'Vec::<.*>::push$')
    removes = sel.calls(r'HashSet::<.*>::remove$')
    main = None
    for h, nodes in loops:
        if any(p.bb in nodes for p in pushes) and any(r.bb in nodes for r in removes):
            if main is None or len(nodes) < len(main[1]):
                main = (h, nodes)
    if main is None:
        ctx.ob('ROUND', 'loop', False, sel.where(), 'no loop containing both the selection push and the candidate removal')
    else:
        h, nodes = main
        inp = [p for p in pushes if p.bb in nodes]
        inr = [r for r in removes if r.bb in nodes]
        one = len(inp) == 1 and len(inr) == 1
        # every path header -> back to header passes push and remove
        succg, predg, _ = sel.cfg()
        body_entries = [s for s in succg[h] if s in nodes]
        passes = False
        if one:
            ok1, _ = L.must_pass(sel, body_entries_after_next(sel, h, nodes), [inp[0].bb], [h])
            ok2, _ = L.must_pass(sel, body_entries_after_next(sel, h, nodes), [inr[0].bb], [h])
            passes = ok1 and ok2
        # same node
        samen = False
        if one:
            pv = sel.expr(inp[0].args[1])
            rv = sel.expr(inr[0].args[1])
            pl = [x for x in pv.walk() if x.k == 'let' and x.b and 'selected' in x.b]
            rl = [x for x in rv.walk() if x.k == 'let' and x.b and 'selected' in x.b]
            samen = bool(pl) and bool(rl) and pl[0].a == rl[0].a
            recv_p = sel.expr(inp[0].args[0]).strip().show()
            recv_r = sel.expr(inr[0].args[0]).strip().show()
        ctx.ob('ROUND', 'one-push-one-remove', one and passes and samen, sel.where(inp[0].ln if inp else None),
               'per iteration: %d push, %d remove; on every full iteration: %s; pushed node is the removed node: %s' % (len(inp), len(inr), passes, samen))
        # iteration source: Range 0..k, k = replication_factor as usize
        nxt = [cs for cs in sel.calls() if cs.declared.endswith('iter::Iterator::next') and (cs.bb in nodes or cs.bb == h)]
        rng_ok = False
        for cs in nxt:
            it = sel.expr(cs.args[0])
            for x in it.walk():
                if x.k == 'agg' and str(x.a).endswith('Range::Range'):
                    lo, hi = x.b[0], x.b[1]
                    rng_ok = (lo.const_value() == 0 and 'replication_factor' in hi.show())
        ctx.ob('ROUND', 'range-0..k', rng_ok, sel.where(), 'the loop iterates Range{0, replication_factor as usize}: %s' % rng_ok)
        # exits that can reach success must be the None arm of next()
        succ_bbs = set(bb for bb, _ in succ)
        bad = []
        for (a, bnode) in L.loop_exits(sel, nodes):
            reach = sel.reachable_from([bnode])
            if not (reach & succ_bbs):
                continue
            edges = sel.edge_nodes()
            c = F.edge_cond(sel, edges[a]) if a in edges else (F.edge_cond(sel, edges[bnode]) if bnode in edges else None)
            is_none = c is not None and c.kind == 'disc' and c.variant_is(0) and L.mentions_next(c.expr) is not None
            if not is_none:
                bad.append((a, bnode))
        ctx.ob('ROUND', 'exit-only-on-exhaustion', not bad, sel.where(sel.line_of_block(F.block_of_node(sel, bad[0][0])) if bad else None),
               'every loop exit that can reach Ok is the exhaustion of 0..k' if not bad else 'a loop exit other than range exhaustion reaches Ok (short selection)')
    ctx.floor('ROUND', 3)

    # ---- 3. provenance
    okp = False
    if main is not None and pushes:
        inp = [p for p in pushes if p.bb in main[1]]
        if inp:
            pv = sel.expr(inp[0].args[1])
            sm = pv.mentions_call(r'WeightedSampler::sample_nodes$')
            if sm is not None:
                cw = sm.mentions_call(r'::calculate_weights$')
                # the pool by role: the collection from which the chosen node is removed each round (remove / swap_remove / retain)
                pool = set()
                for rc in sel.calls(r'(Vec|HashSet|VecDeque|BTreeSet|HashMap)::<.*>::(remove|swap_remove|retain|take)$'):
                    if rc.bb in main[1] and rc.args and 'p' in rc.args[0]:
                        pool |= L.alias_of(sel, [rc.args[0]['p'][0]])
                okp = cw is not None and len(cw.b) > 1 and L.touches(sel, cw.b[1], pool) and sm.b[2].const_value() == 1
    ctx.ob('PROVENANCE', 'selected-from-remaining', okp, sel.where(),
           'the pushed node is sample_nodes(calculate_weights(remaining_candidates ..), 1): %s' % okp)
    sn = prog.inl(SAMPLER + '::sample_nodes')          # argument checks may live in a private helper
    ssucc = L.success_returns(sn)
    # the size parameter: the usize parameter of sample_nodes (by type, not by name)
    kparams = [i for i in range(1, prog.body(SAMPLER + '::sample_nodes').argc + 1) if sn.local_ty(i) == 'usize']
    kname = sn.local_name(kparams[0]) if kparams else 'k'

    def is_k(e):
        st = e.strip()
        return st.show() == kname or (st.k == 'param' and st.a in kparams)

    def cands(e):
        return any(x.k == 'param' and x.a != (kparams[0] if kparams else -1) and x.a != 1 for x in e.walk()) or 'candidates' in e.show()
    take_ok = False
    for bb, st in ssucc:
        v = sn.expr(st['r']['ops'][0])
        tk = v.mentions_call(r'Iterator::take$|Iterator>::take$')
        if tk is not None and is_k(tk.b[1]):
            take_ok = True
    # or: the keyed vector is cut with truncate(k) before it is returned
    for c in sn.calls(r'Vec::<.*>::truncate$'):
        if len(c.args) > 1 and is_k(sn.expr(c.args[1])) and all(sn.dominates(c.bb, bb) or sn.expr(st['r']['ops'][0]).mentions_call(r'Vec::<.*>::new$') is not None for bb, st in ssucc):
            take_ok = True
    rej = L.rejecting_conds(sn)
    k_gt = any(L.cmp_is(c, is_k, 'Gt', lambda e: e.mentions_call(r'::len$') is not None) for c in rej)
    ctx.ob('PROVENANCE', 'sample_nodes:take-k-of-input', take_ok and k_gt, sn.where(),
           'sample_nodes returns at most k of the keyed candidates (take / truncate): %s; rejects k > candidates.len(): %s' % (take_ok, k_gt))
    # the keying step (closure or loop around the u^(1/w) key) rejects non-positive weights and clones the candidate id
    wpos = ident = False
    reg = L.element_region(prog, sn, r'f64.*::powf$')
    if reg is not None:
        rb_, emits, rejc, from_elem = reg
        for c in rejc:
            if L.cmp_is(c, lambda e: True, 'Le', lambda e: e.const_value() == 0.0):
                wpos = True
        for bb, v in emits:
            cl = v.mentions_call(r'Clone>::clone$')
            if cl is not None and from_elem(cl):
                ident = True
    ctx.ob('PROVENANCE', 'sample_nodes:weights-positive-ids-cloned', wpos and ident, sn.where(),
           'keys are built only for weights > 0: %s; each key carries a clone of its candidate id: %s' % (wpos, ident))
    ctx.floor('PROVENANCE', 3)

    # ---- 4. table
    nb = prog.body(DIV + '::new')
    vals = {}
    for bi, si, s in nb.stmts():
        if s['r']['k'] == 'agg' and s['r'].get('adt') == DIV:
            vals = {f: nb.expr(o).const_value() for f, o in zip(s['r']['fields'], s['r']['ops'])}
    okt = vals.get('max_nodes_per_region') == 2 and vals.get('max_nodes_per_asn') == 3 and vals.get('min_geographic_distance') == 100.0
    ctx.ob('TABLE', 'enforcer-defaults', okt, nb.where(), 'DiversityEnforcer::new: region cap %s, ASN cap %s, min distance %s km' % (
        vals.get('max_nodes_per_region'), vals.get('max_nodes_per_asn'), vals.get('min_geographic_distance')))
    vb = prog.body(DIV + '::validate_selection')
    rej = L.rejecting_conds(vb)
    r_reg = any(L.cmp_is(c, lambda e: True, 'Gt', L.ends('.max_nodes_per_region')) for c in rej)
    r_asn = any(L.cmp_is(c, lambda e: True, 'Gt', L.ends('.max_nodes_per_asn')) for c in rej)
    r_dst = False
    for c in rej:
        if L.cmp_is(c, lambda e: e.mentions_call(r'::distance_km$') is not None, 'Lt', lambda e: 'min_geographic_distance' in e.show()):
            # the divisor
            for side in (c.lhs, c.rhs):
                s = side.strip()
                if s.k == 'bin' and s.a == 'Div' and s.c.const_value() == 2.0:
                    r_dst = True
    ctx.ob('TABLE', 'validate:region-cap', r_reg, vb.where(), 'count > max_nodes_per_region rejects: %s' % r_reg)
    ctx.ob('TABLE', 'validate:asn-cap', r_asn, vb.where(), 'count > max_nodes_per_asn rejects: %s' % r_asn)
    ctx.ob('TABLE', 'validate:distance', r_dst, vb.where(), 'distance < min_geographic_distance / 2 rejects: %s' % r_dst)
    # every ordered pair of distinct selected nodes reaches the distance test: inside the innermost loop around the
    # distance_km call, no path from "next element" back to the loop head avoids both the call and the i == j edge
    dk = vb.calls(r'::distance_km$')
    okpair = False
    why = 'distance_km call not found in validate_selection'
    wit_ln = None
    if dk:
        D = dk[0].bb
        loops = [(h, ns) for h, ns in L.natural_loops(vb) if D in ns]
        if loops:
            h, ns = min(loops, key=lambda x: len(x[1]))
            starts, same = [], set()
            for nnode, e in vb.edge_nodes().items():
                if nnode not in ns and e[0] not in ns:
                    continue
                c = F.edge_cond(vb, e)
                if c.kind == 'disc' and c.variant_is(1) and L.mentions_next(c.expr) is not None and e[0] in ns and vb.dominates(h, e[0]) and \
                        not any(e[0] in ns2 and len(ns2) < len(ns) for _h2, ns2 in L.natural_loops(vb)):
                    starts.append(nnode)
                if c.kind == 'cmp' and c.op == 'Eq' and c.lhs.strip().k in ('let', 'local', 'field', 'param') and c.rhs.strip().k in ('let', 'local', 'field', 'param'):
                    same.add(nnode)
            if starts:
                reach = vb.reachable_from(starts, set([D]) | same)
                back = [p for p in vb.cfg()[1][h] if p in ns and p in reach]
                okpair = not back
                why = ('every iteration of the pair loop evaluates distance_km unless i == j' if okpair else
                       'the pair loop can move on to the next pair (line %s) without evaluating distance_km for a pair of distinct nodes' % vb.line_of_block(back[0] if back[0] < len(vb.blocks) else vb.cfg()[2][back[0]][0]))
                wit_ln = None if okpair else vb.line_of_block(back[0] if back[0] < len(vb.blocks) else vb.cfg()[2][back[0]][0])
            else:
                why = 'cannot find the element-yielding edge of the pair loop (fail closed)'
        else:
            why = 'distance_km is not evaluated inside a loop over the selection'
    ctx.ob('TABLE', 'validate:every-pair-measured', okpair, vb.where(wit_ln), why, entry=vb.id)
    # the measured distance is a number: in the distance routine (and what it calls) no inverse trigonometric function is
    # applied to an unclamped computed value. acos / asin of a product of sines and cosines leaves [-1, 1] by one ulp for
    # coincident points at some latitudes and returns NaN, and every `distance < min` test is false for NaN — co-located nodes
    # pass the 50 km rule. (Deliberately narrow: this is the one partial function whose NaN arises for CLOSE points.)
    dsites = []
    for did in sorted(prog.reach([c.callee for c in vb.calls(r'::distance_km$')], depth=2)):
        db_ = prog.bodies[did]
        if 'placement' not in db_.file:
            continue
        for cs in db_.calls(r'f64.*::(acos|asin)$|f32.*::(acos|asin)$'):
            arg = db_.expr(cs.args[0]).strip()
            clamped = arg.k == 'call' and re.search(r'::clamp$|::min$|::max$', arg.a) is not None
            dsites.append((db_, cs, clamped))
    badd = [x for x in dsites if not x[2]]
    ctx.ob('TABLE', 'distance:inverse-trig-clamped', not badd, (badd[0][1].where() if badd else vb.where()),
           ('the distance routine applies no inverse trigonometric function to an unclamped value (%d acos/asin site(s))' % len(dsites)) if not badd else
           ('%s is applied to an unclamped computed value in %s: for coincident points the argument can exceed 1 by rounding, the distance becomes NaN and '
            'every `distance < minimum` test is false — two nodes 0 km apart pass the 50 km rule' % (badd[0][1].short(), badd[0][0].id.rsplit('::', 1)[-1])), entry=vb.id)
    # the two counting loops count every selected node, and Ok(()) is returned only after every check loop ran to exhaustion
    ents = vb.calls(r'HashMap::<.*>::entry$')
    for i, c in enumerate(ents):
        okc, wl, why = L.every_iteration_passes(vb, c.bb)
        ctx.ob('TABLE', 'validate:count-every-node#%d' % i, okc, vb.where(wl if wl else c.ln),
               ('every selected node is counted (%s)' % vb.expr(c.args[1]).brief(40)) if okc else
               ('a selected node can be left out of the per-region / per-ASN count: %s' % why), entry=vb.id)
    oks = L.success_returns(vb)
    exhaust = []
    for nnode, e in vb.edge_nodes().items():
        cnd = F.edge_cond(vb, e)
        if cnd.kind == 'disc' and cnd.variant_is(0) and L.mentions_next(cnd.expr) is not None:
            exhaust.append(nnode)
    outer = []
    loops_v = L.natural_loops(vb)
    for h, ns in loops_v:
        if not any(ns < ns2 for _h2, ns2 in loops_v if ns2 is not ns):
            outer.append((h, ns))
    okret = bool(oks) and len(outer) >= 1
    whyret = '%d top-level loops' % len(outer)
    for bb, st in oks:
        for h, ns in outer:
            ex = [n for n in exhaust if vb.cfg()[2][n][0] in ns and not any(vb.cfg()[2][n][0] in ns2 and ns2 < ns for _h, ns2 in loops_v)]
            if not any(vb.dominates(n, bb) for n in ex):
                okret = False
                whyret = 'Ok(()) at line %s is not dominated by the exhaustion of the loop at line %s' % (st.get('ln'), vb.line_of_block(h))
    ctx.ob('TABLE', 'validate:ok-after-all-checks', okret, vb.where(oks[0][1].get('ln') if oks else None),
           ('Ok(()) is returned only after all %d check loops ran to exhaustion' % len(outer)) if okret else whyret, entry=vb.id)
    ctx.floor('TABLE', 8)

    # ---- 5. no panic sites in the algorithm bodies
    n = 0
    for b in bodies:
        if not (b.root.startswith(STRAT) or b.root.startswith(SAMPLER) or b.root.startswith(DIV) or 'WeightedPlacementStrategy' in b.root
                or b.root.startswith('placement::algorithms::validate_')):
            continue
        n += 1
        sites = [s for s in L.panic_sites(b) if s[0] in ('unwrap', 'panic', 'index', 'slice-op', 'bounds', 'divzero')]
        ctx.ob('NO-PANIC', 'panic-free:%s' % b.id, not sites, b.where(sites[0][2] if sites else None),
               'no unwrap/expect/panic/index site' if not sites else 'potential panic: %s at line %s' % (sites[0][3], sites[0][2]))
    ctx.floor('NO-PANIC', 5)


def body_entries_after_next(sel, h, nodes):
    """the CFG nodes where an iteration's work starts: the Some arm of the loop's next()"""
    out = []
    for n, e in sel.edge_nodes().items():
        if n in nodes:
            c = F.edge_cond(sel, e)
            if c.kind == 'disc' and c.variant_is(1) and L.mentions_next(c.expr) is not None:
                out.append(n)
    if not out:
        succg, _, _ = sel.cfg()
        out = [s for s in succg[h] if s in nodes]
    return out
