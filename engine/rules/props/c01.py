"""C01 — iterative lookup returns the K closest responsive nodes it could learn of (structural clauses)."""
import json
import re
import facts as F
import lib as L

EXPLANATION = (
    "Static decision of structural clauses of C01 on MIR of DhtNetworkManager::find_closest_nodes_network: (1) BOUNDED — the "
    "lookup loop iterates a constant range and each batch push is dominated by batch.len() < ALPHA (requests <= MAX_ITERATIONS x "
    "ALPHA); requests are built only from the batch; (2) NO-SELF — the self-marking call dominates the loop, every queue push of "
    "a node named in a reply is dominated by !is_local_peer_id, the initial queue is the (self-filtered) local answer; (3) "
    "NO-DOUBLE-QUERY — batch pushes are dominated by !queried.contains(id), queried.insert(id) dominates the handling of every "
    "result, queue pushes are dominated by !queried.contains and !queued.contains; (4) RESULT — the returned vector last passes "
    "sort_by(compare_node_distance) then truncate(count), and is fed only by the local node and by batch members on non-error "
    "reply arms; (5) EXIT-GUARD — the loop may stop only on an empty queue / empty drained batch / exhausted budget (the "
    "snapshot-stagnation exit is infeasible and allow-listed): any other exit leaves learned candidates unqueried."
)
NOT_DECIDED = "that the returned set equals the true K-closest for a concrete topology; behaviour of lying peers beyond the structural filters"
ASSUMPTIONS = ["C02 (the local answer excludes self, is deduplicated)", "C04 (a reply belongs to the request sent)"]

MGR = 'dht_network_manager::DhtNetworkManager'


def run(ctx):
    prog = ctx.prog
    # the lookup body with its same-file helpers spliced in (a batch-selection or reply-handling helper changes nothing);
    # the request sender and the routines the rules name stay calls
    b = prog.inl(MGR + '::find_closest_nodes_network',
                 keep=r'::(send_dht_request|mark_self_queried|find_closest_nodes_local|local_dht_node|is_local_peer_id|compare_node_distance)$')
    ctx.touch(b, len(b.calls()))
    for fn in ('find_closest_nodes', 'find_node'):
        fb = prog.async_body(MGR + '::' + fn)
        ok = any(c.callee == MGR + '::find_closest_nodes_network' for c in fb.calls())
        ctx.ob('ENTRY', 'delegates:%s' % fn, ok, fb.where(), '%s performs the iterative lookup through find_closest_nodes_network: %s' % (fn, ok))
    loop = L.main_loop_with(b, r'::send_dht_request$')
    succ = [bb for bb, _ in L.success_returns(b)]
    if loop is None or not succ:
        ctx.ob('EXIT-GUARD', 'lookup:loop', False, b.where(), 'lookup loop or Ok return not found')
        return
    h, nodes = loop

    # the working sets of the lookup, identified by their role (not by their names): alias classes of locals
    def ty_is(l, rx):
        return re.search(rx, b.local_ty(l)) is not None

    roles = {}
    # (identities are (alias class of the root local, field) pairs, so the sets may also live in the fields of one struct
    # local, e.g. a `LookupFrontier { queue, ids }` whose methods are spliced in)
    def key_of(op):
        k_ = L.operand_key(b, op)
        return {k_} if k_ is not None else set()
    # result: what Ok(..) returns
    best = set()
    for bb, st in L.success_returns(b):
        for op in st['r']['ops']:
            best |= key_of(op)
    roles['best_nodes'] = best
    # queried set: the set handed to mark_self_queried
    queried = set()
    for c in b.calls():
        if c.callee == MGR + '::mark_self_queried' and len(c.args) > 1:
            queried |= key_of(c.args[1])
    roles['queried_nodes'] = queried
    # candidate queue: the deque(s) of nodes popped inside the loop
    queue = set()
    for c in b.calls(r'VecDeque::<.*>::(pop_front|pop_back)$'):
        if c.bb in nodes and c.args:
            queue |= key_of(c.args[0])
    roles['candidates'] = queue
    # batch: the vector the FIND_NODE requests are mapped over
    batch = set()
    for cs in b.calls(r'Iterator::map$|Iterator>::map$'):
        clos = [x for x in b.expr(cs.args[1]).walk() if x.k == 'agg' and x.d == 'closure']
        if clos and clos[0].a in prog.bodies and any(any(c.callee.endswith('::send_dht_request') for c in prog.bodies[i].calls()) for i in prog.family(clos[0].a)):
            for (l, f_) in L.expr_keys(b, b.expr(cs.args[0])):
                if f_ is None and any(ty_is(x, r'Vec<.*DHTNode') for x in L.alias_classes(b).get(l, {l})):
                    batch.add((l, f_))
    roles['batch'] = batch
    # queued set: a string set, not the queried one, that grows inside the loop
    queued = set()
    for c in b.calls(r'HashSet::<.*>::insert$'):
        if c.bb in nodes and c.args:
            ks = key_of(c.args[0])
            if ks and not (ks & queried):
                queued |= ks
    roles['queued_peer_ids'] = queued

    def named(e, name):
        return L.touches_keys(b, e, roles.get(name, set()))

    pushes = b.calls(r'Vec::<.*>::push$')
    qpushes = b.calls(r'VecDeque::<.*>::push_back$')
    batch_p = [c for c in pushes if named(b.expr(c.args[0]), 'batch')]
    best_p = [c for c in pushes if named(b.expr(c.args[0]), 'best_nodes')]
    queue_p = [c for c in qpushes if named(b.expr(c.args[0]), 'candidates')]

    # ---- 1. bounded
    kinds = L.classify_exits(b, loop, succ, (), queue_locals=roles['candidates'], batch_locals=roles['batch'], result_locals=roles['best_nodes'] | roles['candidates'], keyed=True)
    budget = [k for k in kinds if k[0] == 'budget']
    rng_const = False
    for k, c, ln in budget:
        for x in c.expr.walk():
            if x.k == 'agg' and str(x.a).endswith('Range::Range'):
                hi = x.b[1].strip()
                v = hi.const_value()
                if v is None and hi.k == 'const' and hi.d in prog.consts:
                    v = prog.const_val(hi.d)
                rng_const = v is not None and v <= 20
    ctx.ob('BOUNDED', 'loop:constant-range', rng_const, b.where(), 'the lookup loop iterates a constant range of at most 20 rounds: %s' % rng_const)
    for i, c in enumerate(batch_p):
        conds = F.dominating_conds(b, c.bb)
        lim = False
        for cd in conds:
            if L.cmp_is(cd, lambda e: e.mentions_call(r'Vec::<.*>::len$') is not None and named(e, 'batch'), 'Lt',
                        lambda e: (e.strip().const_value() or (prog.const_val(e.strip().d) if e.strip().k == 'const' and e.strip().d in prog.consts else 99)) <= 3):
                lim = True
        ctx.ob('BOUNDED', 'batch-push#%d:alpha' % i, lim, c.where(), 'batch push is dominated by batch.len() < ALPHA (<= 3): %s' % lim)
    # requests built only from the batch
    req_src = None
    for cs in b.calls(r'Iterator::map$|Iterator>::map$'):
        clos = [x for x in b.expr(cs.args[1]).walk() if x.k == 'agg' and x.d == 'closure']
        if clos and clos[0].a in prog.bodies and any(any(c.callee.endswith('::send_dht_request') for c in prog.bodies[i].calls()) for i in prog.family(clos[0].a)):
            req_src = b.expr(cs.args[0])
    okreq = req_src is not None and named(req_src, 'batch')
    ctx.ob('BOUNDED', 'requests-from-batch', okreq, b.where(), 'FIND_NODE requests are mapped over the batch: %s' % okreq)
    ctx.floor('BOUNDED', 3)

    # ---- 2. self never queued
    ms = [c for c in b.calls() if c.callee == MGR + '::mark_self_queried']
    okms = bool(ms) and b.dominates(ms[0].bb, h) and named(b.expr(ms[0].args[1]), 'queried_nodes')
    ctx.ob('NO-SELF', 'mark-self-before-loop', okms, b.where(), 'mark_self_queried(&mut queried_nodes) dominates the lookup loop: %s' % okms)
    msb = prog.body(MGR + '::mark_self_queried')
    ins = msb.calls(r'HashSet::<.*>::insert$')
    okm2 = len(ins) >= 2 and any('local_peer_id' in msb.expr(c.args[1]).show() for c in ins) and any('local_transport_peer_id' in msb.expr(c.args[1]).show() or 'tid' in L._names(msb.expr(c.args[1])) for c in ins)
    ctx.ob('NO-SELF', 'mark_self_queried:both-ids', okm2, msb.where(), 'mark_self_queried inserts the app-level and the transport-level local id: %s' % okm2)
    # the seed asks the local tables for at least `count` nodes: a locally known peer among the `count` closest is
    # then in the queue from the start (nothing else ever puts a locally known peer there)
    seeds = [c for c in b.calls(r'::find_closest_nodes_local$') if c.bb not in nodes]
    for i, c in enumerate(seeds):
        # async fn: the call builds the future; args = (self, key, count)
        ce = b.expr(c.args[-1])
        st = ce.strip()

        def at_least_count(x):
            x = x.strip()
            if x.k == 'param' and x.b == 'count':
                return True
            if x.k == 'bin' and x.a in ('Add', 'Mul', 'AddWithOverflow', 'MulWithOverflow'):
                return (at_least_count(x.b) and (x.c.const_value() or 0) >= (1 if x.a.startswith('Mul') else 0)) or \
                       (at_least_count(x.c) and (x.b.const_value() or 0) >= (1 if x.a.startswith('Mul') else 0))
            if x.k == 'field' and x.b in ('::0',) and x.a.strip().k == 'bin':
                return at_least_count(x.a)
            if x.k == 'call' and re.search(r'::max$|::saturating_add$|::saturating_mul$', x.a):
                return any(at_least_count(a) for a in x.b)
            return False
        oks = at_least_count(st)
        ctx.ob('SEED', 'local-seed#%d:count' % i, oks, c.where(),
               ('the lookup seeds its queue with find_closest_nodes_local(key, %s): at least `count`' % st.brief(60)) if oks else
               ('the lookup seeds its queue with find_closest_nodes_local(key, %s), which can be fewer than `count`: a locally known, '
                'closer peer beyond that cut is never queued (replies are the only other source)' % st.brief(60)),
               entry=MGR + '::find_closest_nodes_network' if 'MGR' in globals() else None)
    ctx.floor('SEED', 1)
    for i, c in enumerate(queue_p):
        conds = F.dominating_conds(b, c.bb)
        in_loop = c.bb in nodes
        if not in_loop:
            # the initial fill: from the local answer
            v = b.expr(c.args[1])
            src_ok = bool(b.calls(r'::find_closest_nodes_local$')) and _from_call(b, c.args[1], r'::find_closest_nodes_local')
            ctx.ob('NO-SELF', 'queue-push#%d:initial' % i, src_ok, c.where(), 'initial queue entries come from find_closest_nodes_local (self-filtered by C02): %s' % src_ok)
            continue
        notself = any(cd.kind == 'bool' and not cd.truth and cd.expr.mentions_call(r'::is_local_peer_id$') is not None for cd in conds)
        notq = any(cd.kind == 'bool' and not cd.truth and cd.expr.mentions_call(r'HashSet::<.*>::contains$') is not None and named(cd.expr, 'queried_nodes') for cd in conds)
        notqd = any(cd.kind == 'bool' and not cd.truth and cd.expr.mentions_call(r'HashSet::<.*>::contains$') is not None and named(cd.expr, 'queued_peer_ids') for cd in conds)
        ctx.ob('NO-SELF', 'queue-push#%d:not-self' % i, notself, c.where(), 'a node named in a reply is queued only if !is_local_peer_id: %s' % notself)
        ctx.ob('NO-DOUBLE-QUERY', 'queue-push#%d:not-queried-not-queued' % i, notq and notqd, c.where(), 'queued only if not already queried (%s) and not already queued (%s)' % (notq, notqd))
    ctx.floor('NO-SELF', 4)

    # ---- 3. no double query
    for i, c in enumerate(batch_p):
        conds = F.dominating_conds(b, c.bb)
        nq = any(cd.kind == 'bool' and not cd.truth and cd.expr.mentions_call(r'HashSet::<.*>::contains$') is not None and named(cd.expr, 'queried_nodes') for cd in conds)
        ctx.ob('NO-DOUBLE-QUERY', 'batch-push#%d:not-queried' % i, nq, c.where(), 'a node enters the batch only if !queried_nodes.contains(id): %s' % nq)
    qi = [c for c in b.calls(r'HashSet::<.*>::insert$') if named(b.expr(c.args[0]), 'queried_nodes') and c.bb in nodes]
    # it must dominate the handling of each result: i.e. every best_nodes push / queue push inside the loop
    okqi = bool(qi) and all(any(b.dominates(q.bb, p.bb) for q in qi) for p in [p for p in best_p + queue_p if p.bb in nodes])
    ctx.ob('NO-DOUBLE-QUERY', 'queried-insert-per-result', okqi, (qi[0].where() if qi else b.where()),
           'queried_nodes.insert(peer_id) dominates the handling of every result (all reply arms): %s' % okqi)
    ctx.floor('NO-DOUBLE-QUERY', 3)

    # ---- 4. result
    sorts = [c for c in b.calls(r'sort_by$') if named(b.expr(c.args[0]), 'best_nodes')]
    truncs = [c for c in b.calls(r'Vec::<.*>::truncate$') if named(b.expr(c.args[0]), 'best_nodes')]
    final_sort = [c for c in sorts if c.bb not in nodes and all(b.dominates(c.bb, s) for s in succ)]
    final_trunc = [c for c in truncs if c.bb not in nodes and all(b.dominates(c.bb, s) for s in succ)]
    okord = bool(final_sort) and bool(final_trunc) and b.dominates(final_sort[-1].bb, final_trunc[-1].bb) and b.expr(final_trunc[-1].args[1]).strip().show() == 'count'
    cmpd = False
    for c in final_sort:
        for x in b.expr(c.args[1]).walk():
            if x.k == 'agg' and x.d == 'closure' and x.a in prog.bodies and prog.bodies[x.a].calls(r'::compare_node_distance$'):
                cmpd = True
    retv = False
    for bb, st in L.success_returns(b):
        retv = named(b.expr(st['r']['ops'][0]), 'best_nodes')
    # every Ok(..) hands back the vector this lookup filled (the one the final sort works on): a result taken from anywhere
    # else — a cache of an earlier lookup, the local answer — names peers that did not answer during THIS lookup
    res_cls = set()
    for c in sorts:
        if c.args:
            res_cls |= key_of(c.args[0])
    foreign = []
    for bb, st in L.success_returns(b):
        ops = [o for o in st['r']['ops'] if 'p' in o]
        if not ops or not (key_of(ops[0]) & res_cls or L.touches_keys(b, b.expr(ops[0]), res_cls)):
            foreign.append((bb, st))
    ctx.ob('RESULT', 'ok-returns-this-lookups-vector', bool(res_cls) and not foreign, b.where(foreign[0][1].get('ln') if foreign else None),
           'every Ok(..) returns the vector filled and sorted by this lookup' if not foreign else
           'an Ok(..) return (line %s) hands back %s, not the vector this lookup filled: the caller gets peers that did not answer during this lookup' % (
               foreign[0][1].get('ln'), b.expr(foreign[0][1]['r']['ops'][0]).brief(80) if foreign[0][1]['r']['ops'] else '?'), entry=MGR + '::find_closest_nodes_network')
    ctx.ob('RESULT', 'sorted-then-truncated', okord and cmpd and retv, b.where(),
           'Ok(best_nodes) (%s) is dominated by sort_by(compare_node_distance) (%s) then truncate(count) (%s)' % (retv, cmpd, okord))
    cn = prog.body(MGR + '::compare_node_distance')
    okcn = len(cn.calls(r'DhtKey::distance$')) >= 2 and bool(cn.calls(r'::cmp$'))
    ctx.ob('RESULT', 'comparator-uses-xor-distance', okcn, cn.where(), 'compare_node_distance orders by DhtKey::distance to the target: %s' % okcn)
    for i, c in enumerate(best_p):
        v = b.expr(c.args[1])
        if c.bb not in nodes:
            okp = v.mentions_call(r'::local_dht_node$') is not None
            ctx.ob('RESULT', 'best-push#%d:seed' % i, okp, c.where(), 'outside the loop only the local node is seeded into the result: %s' % okp)
        else:
            # a clone of a batch member, on an Ok(..) reply arm
            from_batch = _from_batch(b, c.args[1], roles['batch'])
            conds = F.dominating_conds(b, c.bb)
            # the innermost Result-discriminant fact about the reply (not the Poll of an await)
            ok_arm = False
            for cd in conds:
                if cd.kind != 'disc' or L.is_poll_disc(cd):
                    continue
                st = cd.expr.strip()
                # the discriminant of the reply itself: `(next() as Some).0.1` (the Result half of the
                # (peer_id, result) tuple) or a local named `result`
                is_result = (st.k == 'field' and st.b.endswith('::1') and 'join_all' in st.show() and L.mentions_next(st) is not None) or \
                            (st.k in ('let', 'local') and isinstance(st.a, int) and b.local_ty(st.a).startswith('std::result::Result') and
                             any(cj.dest and cj.dest[0] in b.backward_locals([st.a], limit=1500) for cj in b.calls(r'::join_all$')))
                if is_result:
                    ok_arm = cd.variant_is(0)
                    break
            ctx.ob('RESULT', 'best-push#%d:answered-batch-member' % i, from_batch and ok_arm, c.where(),
                   'a node enters the result only as a batch member (%s) whose query returned Ok (%s)' % (from_batch, ok_arm))
    ctx.floor('RESULT', 4)

    # ---- 5. exit guard
    for i, (k, c, ln) in enumerate(kinds):
        ok = k in ('queue-empty', 'batch-empty', 'budget', 'stagnation')
        note = {'stagnation': ' (infeasible: an id once popped is marked queried and can never be queued again; allow-listed)'}.get(k, '')
        what = c.brief(100) if c else 'nothing'
        key = 'exit:%s#%d' % (k if ok else 'other:' + re.sub(r'[^A-Za-z_!]', '', what)[:40], sum(1 for kk, _, _ in kinds[:i] if kk == k))
        ctx.ob('EXIT-GUARD', key, ok, b.where(ln),
               ('loop exit guarded by %s: %s%s' % (what, k, note)) if ok else
               ('the lookup stops on `%s` while the candidate queue may be non-empty: peers it learned of (possibly closer than the farthest returned node) are left unqueried' % what))
    ctx.floor('EXIT-GUARD', 3)

    # the queue of a lookup / get is seeded from the node's own answer (find_closest_nodes_local): a known peer withheld from
    # that answer is never queried, so the C02 rules about which entries the local answer may leave out are evaluated here too
    from props import c02 as C02
    import runner as _runner
    sub = _runner.Ctx('C02', prog, ctx.tier, ctx.progs)
    try:
        C02.run(sub)
        for o in sub.obls:
            if o.key.startswith('local-answer:skip-reason') or o.key == 'local-answer:skip-reasons-closed':
                ctx.ob('LOCAL-ANSWER', o.key, o.ok, o.where, o.detail, entry=o.entry)
    except Exception as e:  # pragma: no cover - fail closed
        ctx.ob('LOCAL-ANSWER', 'local-answer:rules-ran', False, '-', 'the local-answer rules could not be evaluated: %s' % e)
    ctx.floor('LOCAL-ANSWER', 1)


def _from_call(b, op, rx):
    if 'p' not in op:
        return False
    sl = b.backward_locals([op['p'][0]], limit=1500)
    return any(c.dest and c.dest[0] in sl for c in b.calls(rx))


def _from_batch(b, op, batch):
    if 'p' not in op:
        return False
    sl = b.backward_locals([op['p'][0]], limit=2500)
    return bool(sl & set(l for l, f in batch))
