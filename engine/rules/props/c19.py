"""C19 — addresses survive every textual round trip the library itself performs (structural clauses)."""
import json
import re
import facts as F
import lib as L

EXPLANATION = (
    "Static decision of structural clauses of C19: (1) GRAMMAR — a crate-wide, field-based string-provenance analysis tags every "
    "String produced by NetworkAddress's Display (to_string / format!) and follows it through locals, struct fields, call "
    "arguments, closure captures and returns; every SocketAddr / IpAddr parse site it reaches must first pass a stripper of the "
    "' (' suffix that Display appends; (2) ROUND-TRIP — FromStr for NetworkAddress handles every literal piece Display emits "
    "(it must strip / split on ' (' before trying the socket-address grammar); (3) SERDE — Serialize and Deserialize of "
    "NetworkAddress are both derived over the same fields; (4) NO-PANIC — the parsers (from_str, from_four_words) contain no "
    "undischarged panic site (constant indexing only under a dominating length test)."
    ' SERDE field-for-field: the derived Deserialize builds NetworkAddress directly from the decoded fields (no #[serde(try_from / from / into)] detour through hand-written code).'
    ' ROUND-TRIP parsed-as-is: every NetworkAddress::new in from_str / from_four_words is given the parse result itself (parse::<SocketAddr>(), or SocketAddr::new(parsed ip, parsed port)), not passed through a rewriting step or modified in place.'
)
NOT_DECIDED = "the four-word codec round trip over the 2^48 address space (external crate four-word-networking), e.g. 255.255.255.255:65535"
ASSUMPTIONS = ["std SocketAddr / IpAddr FromStr accept exactly their Display output", "flows through collections are followed field-insensitively"]

NA = 'address::NetworkAddress'
SINK = re.compile(r'(<impl str>::parse|str>::parse|core::str::<impl str>::parse)$')
SINK_FROMSTR = re.compile(r'(SocketAddr|IpAddr|SocketAddrV4|SocketAddrV6|Ipv4Addr|Ipv6Addr) as (core|std)::str::FromStr>::from_str$')
SCOPE = re.compile(r'^src/(address|dht_network_manager|transport_handle|network|dht/core_engine|bootstrap/|identity/four_words|fwid/|dht/network_integration|transport/)')


def is_na_ty(t):
    return t is not None and NA in t


_WRAP = re.compile(r"^(?:&(?:'[a-z_]+ )?(?:mut )?|std::vec::Vec<|std::option::Option<|std::boxed::Box<|std::sync::Arc<|std::borrow::Cow<'[a-z_]+, |"
                   r"std::slice::Iter<'[a-z_]+, |std::vec::IntoIter<|std::iter::Cloned<|std::iter::Peekable<|std::iter::Rev<|std::result::Result<|std::mem::MaybeUninit<|std::mem::ManuallyDrop<|\[)")


def stringish(t):
    """String / &str possibly inside Vec / Option / slice / iterator / Result wrappers — the only
    value types through which a rendered address is followed"""
    if not t:
        return False
    x = t.strip()
    if re.match(r"^(&(mut )?)?std::str::(Split|RSplit|SplitN|RSplitN|SplitTerminator|SplitInclusive|SplitWhitespace|Lines)<", x):
        return True
    for _ in range(8):
        m = _WRAP.match(x)
        if not m:
            break
        x = x[m.end():].strip()
    return bool(re.match(r'^(std::string::String|alloc::string::String|str)\b', x))


class Taint:
    def __init__(self, prog, ctx):
        self.prog = prog
        self.ctx = ctx
        self.fields = set()     # (adt, field)
        self.params = set()     # (fn id, param local index)
        self.upvars = set()     # (closure def, upvar index)
        self.rets = set()       # fn id
        self.reasons = {}
        self.bodies = [b for b in prog.bodies.values() if SCOPE.search(b.file or '') and not b.derived]
        # the separator Display puts between the socket address and the rest (first literal piece)
        self.sep = None
        for bid in prog.bodies.keys():
            if bid.startswith('<%s as std::fmt::Display>::fmt' % NA):
                for cs, pieces, args in L.format_calls(prog.bodies[bid]):
                    for k, v in (pieces or []):
                        if k == 'lit' and v and self.sep is None and re.search(r'[^0-9a-fA-F:.\[\]%]', v):
                            self.sep = v

    def strips(self, pat):
        """does splitting / trimming at `pat` cut the rendering before anything that is not socket-address text?"""
        if not pat or self.sep is None:
            return False
        return self.sep.startswith(pat) and re.search(r'[^0-9a-fA-F:.\[\]%]', pat) is not None

    # -- per body
    def roots(self, b):
        roots = set()
        san = set()
        for c in b.calls():
            # sources: to_string / Display of a NetworkAddress
            if c.declared.endswith('string::ToString::to_string') and c.args and is_na_ty(L.operand_ty(b, c.args[0])) and c.dest:
                roots.add(c.dest[0])
            if c.callee.endswith('fmt::rt::Argument::<\'_>::new_display') and c.args and is_na_ty(L.operand_ty(b, c.args[0])) and c.dest:
                roots.add(c.dest[0])
            base = c.callee
            if base in self.rets and c.dest:
                roots.add(c.dest[0])
            if c.callee.endswith('::{closure#0}') and c.callee[:-13] in self.rets and c.dest:
                roots.add(c.dest[0])
            # sanitisers: split on " (" (and friends)
            if re.search(r'<impl str>::(split|split_once|rsplit|strip_suffix|trim_end_matches|find)$', c.callee) and len(c.args) > 1:
                pat = b.expr(c.args[1]).strip()
                if pat.k == 'const' and isinstance(pat.a, str) and self.strips(pat.a.strip('"').strip("'")) and c.dest:
                    san.add(c.dest[0])
            if c.callee == '<%s as std::str::FromStr>::from_str' % NA or c.callee.endswith('::socket_addr') and c.dest:
                if c.dest:
                    san.add(c.dest[0])
        for i in range(1, b.argc + 1):
            if (b.id, i) in self.params:
                roots.add(i)
        for bi, si, s in b.stmts():
            for o in F._rvalue_operands(s['r']):
                if 'p' not in o:
                    continue
                pl = o['p']
                for p in pl[1:]:
                    if isinstance(p, str) and p.startswith('.') and '::' in p:
                        adt, fld = p[1:].rsplit('::', 1)
                        if (adt, fld) in self.fields and len(s['d']) == 1:
                            roots.add(s['d'][0])
                if pl[0] == 1 and b.parent and len(pl) > 1:
                    idxs = [x for x in pl[1:] if isinstance(x, str) and x.startswith('.::')]
                    if idxs and (b.id, int(idxs[0][3:])) in self.upvars and len(s['d']) == 1:
                        roots.add(s['d'][0])
        for bi, t in b.terms():
            if t['k'] == 'call':
                for a in t['args']:
                    if 'p' in a:
                        for p in a['p'][1:]:
                            if isinstance(p, str) and p.startswith('.') and '::' in p:
                                adt, fld = p[1:].rsplit('::', 1)
                                if (adt, fld) in self.fields:
                                    roots.add(('arg', bi, a['p'][0]))
        return roots, san

    def derived(self, b, l, roots, san, memo):
        """does local l derive from a root without passing a sanitiser?"""
        key = l
        if key in memo:
            return memo[key]
        memo[key] = False
        seen = set()
        q = [l]
        defs = b.defs()
        pdefs = b.partial_defs()
        mw = b.mut_writes()
        hit = False
        while q and len(seen) < 600:
            x = q.pop()
            if x in seen:
                continue
            seen.add(x)
            if x in san:
                continue
            if not stringish(b.local_ty(x)) and x not in roots:
                continue
            if x in roots:
                hit = True
                break
            for src in mw.get(x, ()):
                q.append(src)
            for d in defs.get(x, []) + pdefs.get(x, []):
                if d[0] == 's':
                    if self._under_absent_separator(b, d[1], san):
                        continue
                    for o in F._rvalue_operands(d[3]['r']):
                        if 'p' in o:
                            q.append(o['p'][0])
                else:
                    t = d[3]
                    cs = F.CallSite(b, d[1], t)
                    if ('arg', d[1], None) in roots:
                        pass
                    # do not flow through arbitrary in-crate calls (their returns are handled by ret tags)
                    if cs.callee in self.prog.bodies and not F.TRANSPARENT.match(cs.callee):
                        continue
                    if re.search(r'::(len|is_empty|contains|eq|ne|cmp|hash|port|ip|is_ipv4|is_ipv6|is_loopback|is_unspecified)$', cs.callee):
                        continue
                    args_ = t.get('args', [])
                    if re.search(r'Option::<.*>::(unwrap_or|unwrap_or_else|unwrap_or_default|map_or)$', cs.callee):
                        # the value is the receiver's; the default only matters for None (split(..).next() is never None)
                        args_ = args_[:1]
                    for a in args_:
                        if 'p' in a:
                            if ('arg', d[1], a['p'][0]) in roots:
                                hit = True
                            q.append(a['p'][0])
            if hit:
                break
        memo[key] = hit
        return hit

    def _under_absent_separator(self, b, bb, san):
        """is block bb only reached when a split_once / strip_suffix / find on the separator returned
        None (so the string is known not to contain the separator)?"""
        if not san:
            return False
        key = (b.id, bb)
        memo = self.__dict__.setdefault('_abs_memo', {})
        if key in memo:
            return memo[key]
        res = False
        for cd in F.dominating_conds(b, bb, expand=False):
            if cd.kind == 'disc' and cd.variant_is(0) and not L.is_poll_disc(cd):
                for x in cd.expr.walk():
                    if x.k == 'call' and x.c is not None and x.c.dest and x.c.dest[0] in san and re.search(r'(split_once|strip_suffix|find|rfind)$', x.a):
                        res = True
        memo[key] = res
        return res

    def step(self):
        changed = False
        sinks = []
        for b in self.bodies:
            roots, san = self.roots(b)
            if not roots:
                for c in b.calls():
                    if (SINK.search(c.callee) or SINK_FROMSTR.search(c.callee)) and c.args and 'p' in c.args[0]:
                        target = c.fa if SINK.search(c.callee) else c.callee
                        if re.search(r'SocketAddr|IpAddr|Ipv4Addr|Ipv6Addr', target):
                            sinks.append((b, c, False))
                continue
            memo = {}
            d = lambda l: self.derived(b, l, roots, san, memo)
            for bi, si, s in b.stmts():
                r = s['r']
                if r['k'] == 'agg':
                    if r.get('ak') == 'adt' and r.get('fields') and len(r['fields']) == len(r['ops']):
                        for f, o in zip(r['fields'], r['ops']):
                            if 'p' in o and d(o['p'][0]):
                                k = (r['adt'], f)
                                if k not in self.fields and stringish(self._fty(r['adt'], f)):
                                    self.fields.add(k)
                                    self.reasons[k] = '%s:%s' % (b.file, s.get('ln'))
                                    changed = True
                    if r.get('def'):
                        for i, o in enumerate(r['ops']):
                            if 'p' in o and stringish(b.local_ty(o['p'][0])) and d(o['p'][0]):
                                k = (r['def'], i)
                                if k not in self.upvars:
                                    self.upvars.add(k)
                                    changed = True
                # store into a field place
                dp = s['d']
                if len(dp) > 1:
                    for p in dp[1:]:
                        if isinstance(p, str) and p.startswith('.') and '::' in p and not p.startswith('.::'):
                            adt, fld = p[1:].rsplit('::', 1)
                            srcs = [o['p'][0] for o in F._rvalue_operands(r) if 'p' in o]
                            if any(d(x) for x in srcs) and (adt, fld) not in self.fields and stringish(self._fty(adt, fld)):
                                self.fields.add((adt, fld))
                                self.reasons[(adt, fld)] = '%s:%s' % (b.file, s.get('ln'))
                                changed = True
            for c in b.calls():
                # sinks
                if (SINK.search(c.callee) or SINK_FROMSTR.search(c.callee)) and c.args and 'p' in c.args[0]:
                    target = c.fa if SINK.search(c.callee) else c.callee
                    if re.search(r'SocketAddr|IpAddr|Ipv4Addr|Ipv6Addr', target) or re.search(r'SocketAddr|IpAddr', b.local_ty(c.dest[0]) if c.dest else ''):
                        sinks.append((b, c, d(c.args[0]['p'][0])))
                # iterator adaptors hand the elements of a tainted collection to their closure
                if re.search(r'iter::Iterator::(map|filter_map|filter|for_each|any|all|find|find_map|flat_map|position|inspect|take_while|skip_while)$', c.declared) and len(c.args) >= 2:
                    if 'p' in c.args[0] and d(c.args[0]['p'][0]):
                        for x in b.expr(c.args[1]).walk():
                            if x.k == 'agg' and x.d == 'closure' and x.a in self.prog.bodies:
                                k = (x.a, 2)
                                if k not in self.params:
                                    self.params.add(k)
                                    changed = True
                # calls into the crate: tag parameters
                callee = c.callee
                if callee in self.prog.bodies and not F.TRANSPARENT.match(callee):
                    cb = self.prog.bodies[callee]
                    for i, a in enumerate(c.args):
                        if 'p' in a and stringish(b.local_ty(a['p'][0])) and d(a['p'][0]) and i + 1 <= cb.argc:
                            k = (callee, i + 1)
                            if k not in self.params:
                                self.params.add(k)
                                changed = True
                            if cb.is_async:
                                k2 = (callee + '::{closure#0}', i)
                                if k2 not in self.upvars:
                                    self.upvars.add(k2)
                                    changed = True
            # returns
            for dd in b.defs().get(0, []):
                srcs = []
                if dd[0] == 's':
                    srcs = [o['p'][0] for o in F._rvalue_operands(dd[3]['r']) if 'p' in o]
                else:
                    srcs = [a['p'][0] for a in dd[3].get('args', []) if 'p' in a]
                if any(d(x) for x in srcs):
                    rid = b.id
                    if b.is_coroutine and b.parent and self.prog.bodies.get(b.parent) is not None and self.prog.bodies[b.parent].is_async:
                        rid = b.parent
                    if rid not in self.rets and stringish(b.local_ty(0)):
                        self.rets.add(rid)
                        changed = True
        return changed, sinks

    def _fty(self, adt, f):
        try:
            return self.prog.field_ty(adt, f)
        except F.AnchorMissing:
            return None

    def run(self):
        sinks = []
        for rnd in range(8):
            ch, sinks = self.step()
            if not ch:
                break
        return sinks


def run(ctx):
    prog = ctx.prog
    prog.adt(NA)
    # ---- 1. grammar
    t = Taint(prog, ctx)
    sinks = t.run()
    for b in t.bodies:
        ctx.touch(b)
    ctx.note('fields that can hold a NetworkAddress rendering: %s' % sorted('%s.%s' % (a.rsplit('::', 1)[-1], f) for a, f in t.fields))
    ctx.note('parameters reached: %d, closure captures: %d, returns: %d' % (len(t.params), len(t.upvars), len(t.rets)))
    seen = {}
    nsink = 0
    for b, c, tainted in sinks:
        nsink += 1
        # a parse site inside a private helper is keyed by the entry point it works for (extracting the parse into a helper of
        # add_node does not create a new site)
        owners = sorted(prog.owner_roots(b.root))
        base = 'parse@%s' % (owners[0] if len(owners) == 1 else b.root)
        seen[base] = seen.get(base, 0) + 1
        key = '%s#%d' % (base, seen[base])
        if tainted:
            ctx.ob('GRAMMAR', key, False, c.where(),
                   'a string rendered by NetworkAddress\'s Display (\'ip:port (four-words)\') reaches this %s parse without the \' (\' suffix being stripped: the parse fails for every address the library renders' % (
                       'SocketAddr/IpAddr'), entry=b.root)
        else:
            ctx.ob('GRAMMAR', key, True, c.where(), 'no un-stripped NetworkAddress rendering reaches this address parse')
    ctx.ob('GRAMMAR', 'engine:coverage', nsink >= 6 and len(t.fields) >= 2, '-',
           '%d address parse sites examined in %d bodies; %d fields carry renderings' % (nsink, len(t.bodies), len(t.fields)))
    ctx.floor('GRAMMAR', 4)

    # ---- 2. Display / FromStr agreement
    disp = prog.body('<%s as std::fmt::Display>::fmt' % NA)
    fs = prog.body('<%s as std::str::FromStr>::from_str' % NA)
    ctx.touch(disp)
    ctx.touch(fs, len(fs.calls()))
    lits = []
    for cs, pieces, args in L.format_calls(disp):
        for k, v in (pieces or []):
            if k == 'lit' and v.strip():
                lits.append(v)
    handled = []
    for c in fs.calls(r'<impl str>::(split|split_once|rsplit|strip_suffix|strip_prefix|trim_end_matches|find|rfind)$'):
        if len(c.args) > 1:
            p = fs.expr(c.args[1]).strip()
            if p.k == 'const' and isinstance(p.a, str):
                handled.append(p.a.strip('"'))
    first_sock = [c for c in fs.calls(SINK_FROMSTR)]
    sep = [l for l in lits if re.search(r'[^0-9a-fA-F:.\[\]%]', l.replace(']', '').replace('[', '~')) or '[' in l][:1] if lits else []
    ok = bool(sep) and any(any(l.strip() in h or h in l for h in handled) for l in sep)
    # the stripped string (not the raw input) must be what is parsed as a socket address
    if ok and first_sock:
        a = fs.expr(first_sock[0].args[0])
        ok = a.mentions_call(r'<impl str>::(split|split_once|strip_suffix|trim_end_matches|find)$') is not None
    if not sep:
        ok = True
    ctx.ob('ROUND-TRIP', 'fromstr-reads-display', ok, fs.where(),
           ('Display emits the literal pieces %s; FromStr strips / splits on them before parsing (%s)' % (lits, handled)) if ok else
           ('Display emits the literal pieces %s but FromStr never strips or splits on %r (patterns it handles: %s): NetworkAddress::from_str(&addr.to_string()) fails for every address that has a four-word form' % (lits, sep[0] if sep else '', handled)))
    # from_four_words decodes, then parses the decoded text as SocketAddr and rebuilds through new()
    fw = prog.body(NA + '::from_four_words')
    okfw = bool(fw.calls(r'::decode$')) and bool([c for c in fw.calls(SINK)]) and bool([c for c in fw.calls() if c.callee == NA + '::new'])
    ctx.ob('ROUND-TRIP', 'from_four_words-shape', okfw, fw.where(), 'from_four_words = decode -> parse::<SocketAddr> -> NetworkAddress::new: %s' % okfw)
    # the address built by a parser is the parse result itself: between `parse::<SocketAddr>()` (or `SocketAddr::new(parsed ip,
    # parsed port)`) and NetworkAddress::new nothing rewrites the value — "parsing the library's own rendering yields the same
    # address" fails for exactly the class of addresses any canonicalisation step touches (IPv4-mapped, zero port, scope ids ..).
    PARSE = re.compile(r'<impl str>::parse$|FromStr for (std|core)::net::\w+>::from_str$|as (core|std)::str::FromStr>::from_str$')

    def _peel(e):
        while True:
            e = e.strip()
            if e.k == 'try':
                e = e.a
            elif e.k == 'field' and e.a.strip().k == 'downcast' and e.a.strip().b in ('Ok', 'Some'):
                e = e.a.strip().a
            elif e.k == 'call' and re.search(r'Result::<.*>::(unwrap|expect|ok|map_err)$|Option::<.*>::(unwrap|expect|ok_or|ok_or_else)$', e.a) and e.b:
                e = e.b[0]
            else:
                return e

    def _parsed(e):
        e = _peel(e)
        if e.k == 'call' and PARSE.search(e.a):
            return True
        if e.k == 'call' and re.search(r'net::SocketAddr::new$', e.a) and len(e.b) == 2:
            return all(_parsed(x) or (_peel(x).k == 'call' and re.search(r'net::IpAddr::(V4|V6)$|From<.*>>::from$', _peel(x).a) and _peel(x).b and _parsed(_peel(x).b[0])) for x in e.b)
        if e.k == 'agg' and isinstance(e.a, str) and re.search(r'IpAddr::(V4|V6)$', e.a) and e.b:
            return _parsed(e.b[0])
        return False
    nasis = 0
    for root in ('<%s as std::str::FromStr>::from_str' % NA, NA + '::from_four_words'):
        pb = prog.inl(root, keep=r'NetworkAddress::(new|from_four_words|encode_four_words)$')
        # address-typed locals that are modified in place after their definition (`addr.set_port(..)`, `*addr.ip_mut() = ..`,
        # a field store): a value that passes through one of them is not "the parse result itself"
        touched = set()
        for bi_, si_, s_ in pb.stmts():
            r_ = s_['r']
            if r_['k'] == 'ref' and r_.get('m') == 'mut' and re.search(r'SocketAddr|IpAddr|Ipv4Addr|Ipv6Addr', pb.local_ty(r_['p'][0])):
                touched.add(r_['p'][0])
            if len(s_['d']) > 1 and re.search(r'SocketAddr|IpAddr|Ipv4Addr|Ipv6Addr', pb.local_ty(s_['d'][0])) and '*' not in s_['d'][1:]:
                touched.add(s_['d'][0])
        for i, c in enumerate(c_ for c_ in pb.calls() if c_.callee == NA + '::new'):
            e = pb.expr(c.args[0])
            okp = _parsed(e) and not (L.expr_locals(e) | ({c.args[0]['p'][0]} if 'p' in c.args[0] else set())) & touched
            nasis += 1
            ctx.ob('ROUND-TRIP', 'parsed-as-is@%s#%d' % (root.rsplit('::', 1)[-1], i), okp, c.where(),
                   'NetworkAddress::new is given the parse result itself (%s)' % _peel(e).brief(60) if okp else
                   'the value given to NetworkAddress::new (%s) is not the parse result itself: something rewrites the parsed socket address before the '
                   'NetworkAddress is built, so a rendered address of the rewritten class does not parse back to itself' % e.brief(80), entry=root)
    if nasis < 3:
        ctx.anchor_fail('ROUND-TRIP', 'NetworkAddress::new call sites in from_str / from_four_words (%d found, 3 expected)' % nasis)
    enc = prog.body(NA + '::encode_four_words')
    rep_e = [fw_c for fw_c in enc.calls(r'str>::replace$|<impl str>::replace$')]
    rep_d = [c for c in fw.calls(r'str>::replace$|<impl str>::replace$')]
    sym = False
    if rep_e and rep_d:
        unq = lambda t: str(t).strip('"').strip("'")
        pe = [unq(enc.expr(a).strip().a) for a in rep_e[0].args[1:3]]
        pd = [unq(fw.expr(a).strip().a) for a in rep_d[0].args[1:3]]
        sym = pe == pd[::-1]
    ctx.ob('ROUND-TRIP', 'separator-symmetry', sym, enc.where(), 'encode replaces %s and decode replaces the inverse: %s' % ([str(x) for x in (pe if rep_e and rep_d else [])], sym))

    # ---- 3. serde symmetry
    ser = [i for i in prog.impls if i.get('self_ty') == NA and i.get('trait', '').endswith('Serialize')]
    de = [i for i in prog.impls if i.get('self_ty') == NA and i.get('trait', '').endswith('Deserialize')]
    oks = bool(ser) and bool(de) and all(i.get('derived') for i in ser + de)
    ctx.ob('SERDE', 'derived-both-ways', oks, 'src/address.rs', 'Serialize and Deserialize for NetworkAddress are both derive-generated (same field list %s): %s' % (prog.adt_fields(NA), oks))
    # ... and field for field: the derived Deserialize builds the NetworkAddress aggregate itself from the decoded fields. A
    # `#[serde(try_from / from / into)]` detour (still "derived") re-validates or re-derives the value through hand-written
    # code, so a value the library serialised can be refused or changed when it is read back.
    de_bodies = [b for b in prog.bodies.containing("Deserialize<'de> for address::NetworkAddress") if "Deserialize<'de> for address::NetworkAddress>" in b.id]
    se_bodies = [b for b in prog.bodies.containing('Serialize for address::NetworkAddress') if 'Serialize for address::NetworkAddress>' in b.id and 'Deserialize' not in b.id]
    builds = any(r.get('adt') == NA for b in de_bodies for r in b.aggregates())
    detour = None
    for b in de_bodies + se_bodies:
        for cs in b.calls():
            if re.search(r'convert::(TryFrom|TryInto|From|Into)(<.*>)?>?::(try_from|try_into|from|into)$', cs.declared) and \
                    (NA in cs.callee or NA in (cs.fa or '') or any(NA in (L.operand_ty(b, a) or '') for a in cs.args)):
                detour = cs
            elif cs.local and prog.has_body(cs.callee) and not prog.bodies[cs.callee].derived and cs.callee.startswith('address::') \
                    and 'serde' not in cs.callee and '__' not in cs.callee:
                detour = cs
    ctx.ob('SERDE', 'field-for-field', bool(de_bodies) and builds and detour is None, (detour.where() if detour else 'src/address.rs'),
           ('the derived Deserialize (%d generated bodies) builds NetworkAddress directly from the decoded fields' % len(de_bodies)) if (builds and detour is None) else
           ('deserialisation of NetworkAddress goes through %s: a hand-written conversion / validation sits between the stored fields and the value, so the '
            'library may refuse or alter what it serialised itself' % (detour.short() if detour else 'something other than the field-by-field constructor')))

    # ---- 4. parsers do not panic
    scan_ids = []
    for root_ in (fs, fw, enc, disp):
        for bid_ in sorted(prog.reach([root_.id], depth=2)):
            bb_ = prog.bodies[bid_]
            if bb_.file == fs.file and not bb_.derived and bid_ not in scan_ids:
                scan_ids.append(bid_)
    for b in [prog.bodies[i] for i in scan_ids]:
        ctx.touch(b)
        for kind, bb, ln, text, obj in L.panic_sites(b):
            ok, why = _discharge(b, kind, obj)
            n = sum(1 for o in ctx.obls if o.key.startswith('panic:%s:%s' % (kind, b.id)))
            ctx.ob('NO-PANIC', 'panic:%s:%s#%d' % (kind, b.id, n), ok, b.where(ln), '%s: %s' % (text[:70], why))
    ctx.ob('NO-PANIC', 'parsers-scanned', True, fs.where(), 'from_str / from_four_words / encode_four_words / Display scanned for panic sites')
    ctx.floor('NO-PANIC', 1)


def _discharge(b, kind, obj):
    if kind == 'index':
        cs = obj
        idx = b.expr(cs.args[1]) if len(cs.args) > 1 else None
        iv = idx.const_value() if idx is not None else None
        if iv is not None:
            for cd in F.dominating_conds(b, cs.bb):
                if L.cmp_is(cd, lambda e: e.mentions_call(r'::len$') is not None, ('Ge', 'Gt', 'Eq'), lambda e: e.const_value() is not None):
                    n = cd.rhs.const_value() if cd.rhs.const_value() is not None else cd.lhs.const_value()
                    need = iv + 1 if cd.op != 'Gt' else iv
                    if n is not None and n >= need:
                        return True, 'constant index %d under a dominating len() >= %d test' % (iv, n)
        return False, 'index that no dominating length test covers'
    if kind == 'bounds':
        m = re.search(r'len: const (\d+)_usize, index: const (\d+)_usize', obj['mm'])
        if m and int(m.group(2)) < int(m.group(1)):
            return True, 'constant index within a fixed-size array'
        e = None
        m2 = re.search(r'len: const (\d+)_usize, index: (?:copy|move) _(\d+)', obj['mm'])
        if m2:
            cv = F.Expr.of_local(b, int(m2.group(2)), 10).const_value()
            if cv is not None and cv < int(m2.group(1)):
                return True, 'constant index %d < %s' % (cv, m2.group(1))
        return False, 'bounds check with a computed index'
    return False, 'undischarged %s' % kind
