"""./check driver: extract facts for /repo's current tree, run a property's rules, write evidence."""
import fcntl
import glob
import hashlib
import importlib
import json
import os
import shutil
import subprocess
import sys
import time
import traceback

VERIF = os.path.dirname(os.path.dirname(os.path.dirname(os.path.abspath(__file__))))
REPO = os.environ.get('VERIF_REPO', '/repo')
CACHE = os.path.join(VERIF, '.cache')
DRIVER_DIR = os.path.join(VERIF, 'engine', 'driver')
DRIVER = os.path.join(DRIVER_DIR, 'target', 'release', 'saorsa-facts-driver')
EVID = os.path.join(VERIF, 'evidence')

sys.path.insert(0, os.path.dirname(os.path.abspath(__file__)))
import facts as F  # noqa: E402


# ------------------------------------------------------------------------------------------------
# obligations
# ------------------------------------------------------------------------------------------------

class Obligation:
    def __init__(self, prop, rule, key, ok, where, detail, entry=None):
        self.prop = prop
        self.rule = rule
        self.key = key          # stable: no line numbers
        self.ok = ok
        self.where = where      # file:line (reporting only)
        self.detail = detail
        self.entry = entry

    def as_json(self):
        return {'property': self.prop, 'rule': self.rule, 'key': self.key,
                'status': 'discharged' if self.ok else 'violated',
                'where': self.where, 'detail': self.detail, 'entry': self.entry}


class Ctx:
    """what a rule module gets: the program, the tier, and an obligation sink."""

    def __init__(self, prop, prog, tier, progs=None):
        self.prop = prop
        self.prog = prog
        self.tier = tier
        self.progs = progs or {}
        self.obls = []
        self.notes = []
        self.stats = {'bodies_analysed': set(), 'call_sites': 0}
        self.floors = {}
        self.rule_counts = {}

    def depth(self):
        return 5 if self.tier == 'thorough' else 3

    def touch(self, body, ncalls=0):
        self.stats['bodies_analysed'].add(body.id if hasattr(body, 'id') else body)
        self.stats['call_sites'] += ncalls

    def ob(self, rule, key, ok, where, detail, entry=None):
        o = Obligation(self.prop, rule, key, bool(ok), where, detail, entry)
        self.obls.append(o)
        self.rule_counts[rule] = self.rule_counts.get(rule, 0) + 1
        return o

    def floor(self, rule, n):
        """the rule must have produced at least n obligations (instances confirmed by hand)."""
        self.floors[rule] = n

    def note(self, s):
        self.notes.append(s)

    def anchor_fail(self, rule, what):
        self.ob(rule, 'anchor:' + what, False, '-', 'anchor missing: %s (the rule cannot establish the clause; failing closed)' % what)


# ------------------------------------------------------------------------------------------------
# fact extraction
# ------------------------------------------------------------------------------------------------

def tree_hash(repo=None):
    repo = repo or REPO
    h = hashlib.sha256()
    files = []
    for root, dirs, fs in os.walk(os.path.join(repo, 'src')):
        dirs.sort()
        for f in sorted(fs):
            if f.endswith('.rs'):
                files.append(os.path.join(root, f))
    for extra in ('Cargo.toml', 'Cargo.lock', 'build.rs'):
        p = os.path.join(repo, extra)
        if os.path.exists(p):
            files.append(p)
    for p in files:
        h.update(os.path.relpath(p, repo).encode())
        h.update(b'\0')
        with open(p, 'rb') as fh:
            h.update(fh.read())
        h.update(b'\0')
    # the driver is part of what determines the facts
    dsrc = os.path.join(DRIVER_DIR, 'src', 'main.rs')
    with open(dsrc, 'rb') as fh:
        h.update(fh.read())
    return h.hexdigest()[:20]


def nightly_sysroot():
    return subprocess.check_output(['rustc', '+nightly', '--print', 'sysroot'], text=True).strip()


def build_driver():
    if os.path.exists(DRIVER) and os.path.getmtime(DRIVER) >= os.path.getmtime(os.path.join(DRIVER_DIR, 'src', 'main.rs')):
        return
    env = dict(os.environ, CARGO_NET_OFFLINE='true')
    r = subprocess.run(['cargo', '+nightly', 'build', '--release', '--offline'], cwd=DRIVER_DIR, env=env,
                       stdout=subprocess.PIPE, stderr=subprocess.STDOUT, text=True)
    if r.returncode != 0:
        sys.stdout.write(r.stdout)
        raise RuntimeError('building the fact driver failed')


def extract_facts(cfg, repo=None, target_dir=None, out=None, crates='saorsa_core', quiet=True):
    """run the driver over `repo` (default /repo as it is on disk now); returns the facts path."""
    repo = repo or REPO
    os.makedirs(CACHE, exist_ok=True)
    th = tree_hash(repo)
    out = out or os.path.join(CACHE, 'facts-%s-%s.jsonl' % (cfg, th))
    if os.path.exists(out):
        try:
            with open(out, 'rb') as fh:
                first = json.loads(fh.readline())
            if first.get('nonce') == th:
                return out, th, False
        except Exception:
            pass
    target_dir = target_dir or os.path.join(CACHE, 'target')
    # one extraction at a time per cargo target directory (the self-test uses several target directories in parallel)
    lock = open(os.path.join(CACHE, 'extract-%s.lock' % os.path.basename(target_dir.rstrip('/'))), 'w')
    fcntl.flock(lock, fcntl.LOCK_EX)
    try:
        if os.path.exists(out):
            return out, th, False
        build_driver()
        # cargo's freshness cache would skip the wrapper: drop the crate's fingerprints
        for fp in glob.glob(os.path.join(target_dir, 'debug', '.fingerprint', 'saorsa-core-*')):
            shutil.rmtree(fp, ignore_errors=True)
        env = dict(os.environ)
        env.update({
            'LD_LIBRARY_PATH': os.path.join(nightly_sysroot(), 'lib') + ':' + env.get('LD_LIBRARY_PATH', ''),
            'RUSTFLAGS': '-Awarnings -Zmir-opt-level=0',
            'RUSTC_WORKSPACE_WRAPPER': DRIVER,
            'CARGO_TARGET_DIR': target_dir,
            'CARGO_NET_OFFLINE': 'true',
            'VERIF_FACTS_OUT': out,
            'VERIF_FACTS_NONCE': th,
            'VERIF_FACTS_CRATES': crates,
        })
        env.pop('RUSTC_WRAPPER', None)
        cmd = ['cargo', '+nightly', 'check', '--offline', '--lib']
        if cfg == 'rel':
            cmd += ['--config', 'profile.dev.package.saorsa-core.debug-assertions=false']
        t0 = time.time()
        r = subprocess.run(cmd, cwd=repo, env=env, stdout=subprocess.PIPE, stderr=subprocess.STDOUT, text=True)
        if r.returncode != 0 or not os.path.exists(out):
            tail = '\n'.join(r.stdout.splitlines()[-40:])
            raise RuntimeError('fact extraction failed (cfg=%s, rc=%s): the tree does not compile or the driver broke\n%s'
                               % (cfg, r.returncode, tail[-6000:]))
        with open(out, 'rb') as fh:
            first = json.loads(fh.readline())
        if first.get('nonce') != th:
            raise RuntimeError('stale facts: nonce mismatch (cargo skipped the wrapper?)')
        # keep the cache bounded: at most 4 fact files per cfg
        olds = sorted(glob.glob(os.path.join(CACHE, 'facts-%s-*.jsonl' % cfg)), key=os.path.getmtime)
        for p in olds[:-4]:
            if p != out:
                os.remove(p)
        if not quiet:
            print('facts[%s] extracted in %.1fs -> %s' % (cfg, time.time() - t0, out))
        return out, th, True
    finally:
        fcntl.flock(lock, fcntl.LOCK_UN)
        lock.close()


# ------------------------------------------------------------------------------------------------
# known findings
# ------------------------------------------------------------------------------------------------

def load_known():
    p = os.path.join(VERIF, 'known_findings.json')
    if not os.path.exists(p):
        return {'findings': [], 'fixed': []}
    with open(p) as fh:
        return json.load(fh)


# ------------------------------------------------------------------------------------------------
# main
# ------------------------------------------------------------------------------------------------

def _run_rules(mod, ctx):
    try:
        mod.run(ctx)
    except F.AnchorMissing as e:
        ctx.ob('ANCHOR', 'anchor:' + str(e), False, '-', 'anchor missing: %s (failing closed)' % e)
    except Exception as e:  # a rule that cannot cope with the code's shape cannot decide: fail closed
        traceback.print_exc(file=sys.stderr)
        ctx.ob('CRASH', 'rule-crash', False, '-', 'the rule engine raised %s: %s (code shape not understood; failing closed)' % (type(e).__name__, e))


def run_property(prop, tier, replay=None, facts_override=None, quiet=False):
    t0 = time.time()
    mod = importlib.import_module('props.' + prop.lower())
    cfgs = getattr(mod, 'CONFIGS', ['dbg'])
    if tier == 'thorough':
        cfgs = sorted(set(cfgs) | {'dbg', 'rel'})
    progs = {}
    hashes = {}
    fresh = {}
    for cfg in cfgs:
        if facts_override and cfg in facts_override:
            path, th, fr = facts_override[cfg], 'override', False
        else:
            path, th, fr = extract_facts(cfg)
        progs[cfg] = F.Program(path)
        hashes[cfg] = th
        fresh[cfg] = fr
    primary = getattr(mod, 'PRIMARY', cfgs[0] if 'dbg' not in cfgs else 'dbg')
    ctx = Ctx(prop, progs[primary], tier, progs)
    _run_rules(mod, ctx)
    if tier == 'thorough' and not hasattr(mod, 'PRIMARY'):
        # second evaluation on the other configuration (cfg(debug_assertions) off): same rules, same keys
        other = [c for c in cfgs if c != primary]
        for oc in other:
            ctx2 = Ctx(prop, progs[oc], tier, progs)
            _run_rules(mod, ctx2)
            st1 = {o.key: o for o in ctx.obls}
            for o in ctx2.obls:
                if o.key not in st1:
                    o.detail = '[cfg %s only] ' % oc + o.detail
                    ctx.obls.append(o)
                    ctx.rule_counts[o.rule] = ctx.rule_counts.get(o.rule, 0) + 1
                elif st1[o.key].ok and not o.ok:
                    st1[o.key].ok = False
                    st1[o.key].detail = '[violated in cfg %s] ' % oc + o.detail
            ctx.stats['bodies_analysed'] |= ctx2.stats['bodies_analysed']
            ctx.stats['call_sites'] += ctx2.stats['call_sites']
            ctx.notes.append('rules re-evaluated on configuration %s: %d obligations' % (oc, len(ctx2.obls)))
    # skipped bodies must not be in the files the rules own
    owned = set(getattr(mod, 'FILES', []))
    for sk in ctx.prog.end.get('skipped', []):
        pass  # skipped bodies carry no file; modules check explicitly via ctx.prog.body()
    # floors
    for rule, n in ctx.floors.items():
        got = ctx.rule_counts.get(rule, 0)
        if got < n:
            ctx.ob('FLOOR', 'floor:%s' % rule, False, '-',
                   'rule %s matched %d instances, fewer than the %d confirmed by hand: the rule lost its sites (fail closed)' % (rule, got, n))
    known = load_known()
    known_keys = {(k['property'], k['key']): k for k in known.get('findings', [])}
    violations = [o for o in ctx.obls if not o.ok]
    new = []
    kf = []
    for o in violations:
        k = known_keys.get((prop, o.key))
        if k is not None:
            kf.append((o, k))
        else:
            new.append(o)
    os.makedirs(os.path.join(EVID, 'replay'), exist_ok=True)
    lines = []
    for o, k in kf:
        lines.append('KNOWN-FINDING: property=%s %s [%s @ %s]' % (prop, k['what'], o.key, o.where))
    replay_paths = []
    for i, o in enumerate(new):
        rp = os.path.join(EVID, 'replay', '%s-%d.json' % (prop, i))
        with open(rp, 'w') as fh:
            json.dump({'obligation': o.as_json(), 'tree_hash': hashes.get(primary), 'tier': tier,
                       'how_to_replay': './check %s --replay %s' % (prop, rp)}, fh, indent=1)
        replay_paths.append(rp)
        lines.append('VIOLATION property=%s replay=%s' % (prop, rp))
        lines.append('  rule=%s key=%s at %s' % (o.rule, o.key, o.where))
        lines.append('  %s' % o.detail)
    wall = time.time() - t0
    discharged = sum(1 for o in ctx.obls if o.ok)
    samples = [o.as_json() for o in ctx.obls[:6]] + [o.as_json() for o in violations[:6]]
    ev = {
        'property_id': prop,
        'tier': tier,
        'seed': int(os.environ.get('VERIF_SEED', '0') or 0),
        'level': 'other',
        'coverage': {
            'explanation': getattr(mod, 'EXPLANATION', ''),
            'obligations': len(ctx.obls),
            'discharged': discharged,
            'known_findings': len(kf),
            'new_violations': len(new),
            'rules': sorted(ctx.rule_counts.keys()),
            'rule_instance_counts': ctx.rule_counts,
            'floors': ctx.floors,
            'bodies_analysed': len(ctx.stats['bodies_analysed']),
            'bodies_in_program': len(ctx.prog.bodies),
            'call_sites_inspected': ctx.stats['call_sites'],
            'configs': cfgs,
            'tree_hash': hashes,
            'facts_freshly_extracted': fresh,
            'checker_cmd': './check %s --tier %s' % (prop, tier),
            'trusted_base': ['rustc nightly MIR construction + trait resolution', 'engine/driver fact dump',
                             'semantics table for std/tokio calls in engine/rules'],
            'samples': samples,
            'notes': ctx.notes,
            'not_decided': getattr(mod, 'NOT_DECIDED', ''),
            'exhaustive': False,
        },
        'assumptions': getattr(mod, 'ASSUMPTIONS', []),
        'wall_s': round(wall, 2),
        'violations': len(new),
    }
    with open(os.path.join(EVID, '%s.json' % prop), 'w') as fh:
        json.dump(ev, fh, indent=1)
    if not quiet:
        print('%s tier=%s obligations=%d discharged=%d known=%d new=%d bodies=%d wall=%.1fs' % (
            prop, tier, len(ctx.obls), discharged, len(kf), len(new), len(ctx.stats['bodies_analysed']), wall))
        for l in lines:
            print(l)
    return 1 if new else 0, ctx


def main(argv):
    import argparse
    ap = argparse.ArgumentParser()
    ap.add_argument('prop')
    ap.add_argument('--tier', default=os.environ.get('VERIF_TIER', 'quick'))
    ap.add_argument('--replay', default=None)
    ap.add_argument('--list', action='store_true', help='print every obligation')
    a = ap.parse_args(argv)
    tier = a.tier if a.tier in ('quick', 'thorough') else 'quick'
    try:
        rc, ctx = run_property(a.prop.upper(), tier, a.replay)
    except RuntimeError as e:
        print('ERROR: %s' % e)
        return 2
    if a.list:
        for o in ctx.obls:
            print('%-10s %-9s %s  @%s\n             %s' % (o.rule, 'ok' if o.ok else 'VIOLATED', o.key, o.where, o.detail))
    if a.replay:
        try:
            want = json.load(open(a.replay))['obligation']['key']
            hit = [o for o in ctx.obls if o.key == want]
            for o in hit:
                print('REPLAY %s: %s — %s' % (o.key, 'still violated' if not o.ok else 'now discharged', o.detail))
            if not hit:
                print('REPLAY: obligation %s no longer exists on this tree' % want)
        except Exception as e:  # pragma: no cover
            print('replay file unreadable: %s' % e)
    if tier == 'thorough' and os.environ.get('VERIF_SKIP_SELFTEST') != '1':
        # the checker's own self-test for this property: mutants must be reported, benign edits must not.
        # Its outcome says something about the checker, not about /repo: it is recorded, it never sets the exit code.
        import selftest
        res = selftest.summary_for_property(a.prop.upper())
        evp = os.path.join(EVID, '%s.json' % a.prop.upper())
        ev = json.load(open(evp))
        ev['coverage']['selftest'] = res
        ev['wall_s'] = round(ev['wall_s'] + res.get('wall_s', 0), 2)
        json.dump(ev, open(evp, 'w'), indent=1)
        print('selftest %s: %d mutants reported / %d, %d benign silent / %d, %d seeded reported / %d%s' % (
            a.prop.upper(), res['mutants_detected'], res['mutants'], res['benign_silent'], res['benign'], res['seeded_detected'], res['seeded'],
            '' if not res['problems'] else '  CHECKER-SELFTEST-PROBLEMS: ' + '; '.join(res['problems'][:5])))
    return rc


if __name__ == '__main__':
    sys.exit(main(sys.argv[1:]))
