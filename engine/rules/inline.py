"""MIR-level inlining on the fact records, so that intra-procedural rules (dominators, guard live ranges, must-pass, loop exits)
see through helper extraction: `prog_inlined(prog, body, keep=..)` returns a new Body in which calls to in-crate helpers of the
same source file are replaced by the helper's blocks.

Two call shapes are spliced:
  * a plain call `d = helper(args) -> T`: parameters become fresh locals assigned from the argument operands, every `return`
    of the helper becomes `d = <helper's _0>; goto T`;
  * an awaited async helper `helper(args).await`: the `Future::poll` of the helper's coroutine (resolved callee
    `helper::{closure#0}`) is replaced by the coroutine's blocks; its captured parameters `_1.N` become fresh locals assigned from
    the arguments of the `helper(args)` call that created the future; every `return` becomes `poll_result = Poll::Ready(_0);
    goto <Ready arm>` and the Pending arm of the await loop is cut (the helper's own await points remain as `yield`s).

The result is an over-approximation-free rewrite for the purposes of the rules: same statements, same order, same branch
structure; only call/return plumbing is added. Nothing is executed.
"""
import copy
import json
import re

import facts as F

MAX_BLOCKS = 9000


def _is_place(v):
    return isinstance(v, list) and v and isinstance(v[0], int)


class _Renamer:
    def __init__(self, loff, boff, special):
        self.loff = loff
        self.boff = boff
        self.special = special      # callee local -> caller local (e.g. task context)
        self.upvar = {}             # N -> fresh caller local for `_1.N`

    def local(self, l):
        if l in self.special:
            return self.special[l]
        return l + self.loff

    def place(self, pl):
        if pl[0] == 1 and self.upvar is not None and len(pl) > 1 and isinstance(pl[1], str):
            m = re.fullmatch(r'\.::(\d+)', pl[1])
            if m and int(m.group(1)) in self.upvar:
                return [self.upvar[int(m.group(1))]] + list(pl[2:])
        return [self.local(pl[0])] + list(pl[1:])

    def operand(self, o):
        if isinstance(o, dict) and _is_place(o.get('p')):
            o = dict(o)
            o['p'] = self.place(o['p'])
        return o

    def rvalue(self, r):
        r = dict(r)
        for k in ('o', 'a', 'b'):
            if isinstance(r.get(k), dict):
                r[k] = self.operand(r[k])
        if _is_place(r.get('p')):
            r['p'] = self.place(r['p'])
        if isinstance(r.get('ops'), list):
            r['ops'] = [self.operand(x) for x in r['ops']]
        return r

    def stmt(self, s):
        s = dict(s)
        s['d'] = self.place(s['d'])
        s['r'] = self.rvalue(s['r'])
        return s

    def term(self, t):
        t = dict(t)
        k = t['k']
        if k == 'call':
            t['args'] = [self.operand(a) for a in t.get('args', [])]
            if _is_place(t.get('d')):
                t['d'] = self.place(t['d'])
            if t.get('t') is not None:
                t['t'] = t['t'] + self.boff
            if isinstance(t.get('f'), dict) and _is_place(t['f'].get('p')):
                f = dict(t['f'])
                f['p'] = self.place(f['p'])
                t['f'] = f
        elif k == 'switch':
            t['d'] = self.operand(t['d'])
            t['v'] = [[v, tg + self.boff] for v, tg in t['v']]
            t['o'] = t['o'] + self.boff
        elif k in ('goto',):
            t['t'] = t['t'] + self.boff
        elif k in ('drop', 'cordrop'):
            if _is_place(t.get('p')):
                t['p'] = self.place(t['p'])
            if t.get('t') is not None:
                t['t'] = t['t'] + self.boff
        elif k == 'assert':
            t['t'] = t['t'] + self.boff
            if isinstance(t.get('mm'), str):
                t['mm'] = re.sub(r'\b_(\d+)\b', lambda m: '_%d' % self.local(int(m.group(1))), t['mm'])
            if isinstance(t.get('c'), dict):
                t['c'] = self.operand(t['c'])
        elif k == 'yield':
            if isinstance(t.get('o'), dict):
                t['o'] = self.operand(t['o'])
            t['t'] = t['t'] + self.boff
            if t.get('drop') is not None:
                t['drop'] = t['drop'] + self.boff
            if _is_place(t.get('d')):
                t['d'] = self.place(t['d'])
        return t


def _callee_of(term):
    f = term.get('f', {})
    return f.get('r', f.get('fn'))


def inline_body(prog, body, keep=None, depth=2, same_file=True, only=None):
    """a new Body with in-crate helper calls spliced in. keep: regex of callee ids that must stay calls; only: regex of
    callee ids to inline (default: every eligible callee)."""
    keep_rx = re.compile(keep) if isinstance(keep, str) else keep
    only_rx = re.compile(only) if isinstance(only, str) else only
    o = copy.deepcopy(body.o)
    blocks = o['blocks']
    locs = o['locals']
    is_co = bool(o.get('coroutine'))
    inlined = []
    regions = []     # spliced helper instances: (first block, number of blocks, continuation block, dest place)
    level = {}       # block index -> inline depth of the code in it
    stack_of = {}    # block index -> tuple of callee ids being expanded (recursion cut)

    def eligible(cid, bi):
        if cid is None or cid not in prog.bodies:
            return None
        base = cid
        if cid == body.id or cid == body.root or cid in stack_of.get(bi, ()):
            return None
        if keep_rx is not None and keep_rx.search(cid):
            return None
        if only_rx is not None and not only_rx.search(cid):
            return None
        cb = prog.bodies[cid]
        if same_file and cb.file != body.file:
            return None
        if cb.derived:
            return None
        return cb

    changed = True
    rounds = 0
    while changed and rounds < depth + 1 and len(blocks) < MAX_BLOCKS:
        changed = False
        rounds += 1
        nblocks = len(blocks)
        for bi in range(nblocks):
            blk = blocks[bi]
            if blk.get('cl'):
                continue
            t = blk['t']
            if t['k'] != 'call' or level.get(bi, 0) >= depth:
                continue
            cid = _callee_of(t)
            if cid is None:
                continue
            f = t.get('f', {})
            declared = f.get('fn', '')
            is_poll = declared.endswith('Future::poll') and cid.endswith('::{closure#0}')
            if is_poll:
                base = cid[:-len('::{closure#0}')]
                if base not in prog.bodies or not prog.bodies[base].is_async:
                    continue
                if keep_rx is not None and keep_rx.search(base):
                    continue
                if only_rx is not None and not only_rx.search(base):
                    continue
                cb = eligible(cid, bi)
                if cb is None:
                    continue
                # the call that created the future: closest earlier block calling `base`
                W = None
                tmpb = F.Body(prog, {**o, 'blocks': blocks, 'locals': locs})
                best = -1
                order = None
                for wi, wb in enumerate(blocks):
                    wt = wb['t']
                    if wb.get('cl') or wt['k'] != 'call' or _callee_of(wt) != base:
                        continue
                    if tmpb.dominates(wi, bi):
                        if order is None:
                            import lib as L
                            order = L.rpo(tmpb)
                        if order.get(wi, -1) > best:
                            best = order.get(wi, -1)
                            W = wt
                if W is None:
                    continue
                # Ready arm of the switch on the poll result
                T = t.get('t')
                if T is None or blocks[T]['t']['k'] != 'switch':
                    continue
                ready = None
                for v, tg in blocks[T]['t']['v']:
                    if v == '0':
                        ready = tg
                if ready is None:
                    continue
                loff = len(locs)
                boff = len(blocks)
                rn = _Renamer(loff, boff, {2: 2} if is_co else {})
                # fresh locals for captured parameters
                params = [l for l in range(1, prog.bodies[base].argc + 1)]
                extra = []
                for n_, pl in enumerate(params):
                    decl = dict(prog.bodies[base].locals[pl])
                    extra.append(decl)
                for l in cb.locals:
                    locs.append(dict(l))
                for n_, decl in enumerate(extra):
                    rn.upvar[n_] = len(locs)
                    locs.append(decl)
                assigns = []
                for n_ in range(len(extra)):
                    if n_ < len(W.get('args', [])):
                        a = dict(W['args'][n_])
                        a.pop('m', None)
                        assigns.append({'d': [rn.upvar[n_]], 'r': {'k': 'use', 'o': a}, 'ln': t.get('ln')})
                blk['s'] = list(blk['s']) + assigns
                blk['t'] = {'k': 'goto', 't': boff, 'ln': t.get('ln'), 'inl': cid}
                dest = t.get('d')
                for cbi, cblk in enumerate(cb.blocks):
                    nb = {'s': [rn.stmt(s) for s in cblk['s']], 't': rn.term(cblk['t'])}
                    if cblk.get('cl'):
                        nb['cl'] = cblk['cl']
                    if cblk['t']['k'] == 'ret':
                        if dest:
                            nb['s'].append({'d': list(dest), 'r': {'k': 'agg', 'adt': 'core::task::Poll', 'var': 'Ready', 'fields': ['0'],
                                                                   'ops': [{'p': [rn.local(0)], 'm': 1}], 'ak': 'Adt'}, 'ln': cblk['t'].get('ln')})
                        nb['t'] = {'k': 'goto', 't': ready, 'ln': cblk['t'].get('ln'), 'ret_of': cid}
                    blocks.append(nb)
                    level[boff + cbi] = level.get(bi, 0) + 1
                    stack_of[boff + cbi] = stack_of.get(bi, ()) + (cid, base)
                inlined.append(base)
                regions.append((boff, len(cb.blocks), ready, list(dest) if dest else None))
                changed = True
                continue
            # a closure of this very body called directly (`let path_for = |ts| ..; path_for(t)`): env fields are bound to the
            # operands the closure was built from, the tupled arguments to the tuple's fields
            if re.search(r'ops::(function::)?(Fn|FnMut|FnOnce)::(call|call_mut|call_once)$', declared) and re.search(r'::\{closure#\d+\}$', cid) \
                    and cid in prog.bodies and cid.startswith(body.root) and len(t.get('args', [])) == 2 and level.get(bi, 0) < depth:
                ccb = prog.bodies[cid]
                if ccb.is_coroutine or cid in stack_of.get(bi, ()) or (keep_rx is not None and keep_rx.search(cid)):
                    continue
                # the aggregate that built the closure value
                tmpb = F.Body(prog, {**o, 'blocks': blocks, 'locals': locs})
                env_ops = None
                a0 = t['args'][0]
                roots = tmpb.backward_locals([a0['p'][0]], limit=60) if 'p' in a0 else set()
                for bj, sj, st in tmpb.stmts():
                    r = st['r']
                    if r['k'] == 'agg' and r.get('def') == cid and st['d'][0] in roots:
                        env_ops = r['ops']
                if env_ops is None:
                    continue
                loff = len(locs)
                boff = len(blocks)
                rn = _Renamer(loff, boff, {})
                rn.upvar = {}
                for l in ccb.locals:
                    locs.append(dict(l))
                assigns = []
                for n_, op_ in enumerate(env_ops):
                    rn.upvar[n_] = len(locs)
                    locs.append({'ty': 'captured'})
                    a = dict(op_)
                    a.pop('m', None)
                    assigns.append({'d': [rn.upvar[n_]], 'r': {'k': 'use', 'o': a}, 'ln': t.get('ln')})
                # tupled arguments -> callee parameters _2, _3, ..
                a1 = t['args'][1]
                if 'p' in a1:
                    for i in range(ccb.argc - 1):
                        assigns.append({'d': [loff + 2 + i], 'r': {'k': 'use', 'o': {'p': list(a1['p']) + ['.::%d' % i]}}, 'ln': t.get('ln')})
                T = t.get('t')
                dest = t.get('d')
                blk['s'] = list(blk['s']) + assigns
                blk['t'] = {'k': 'goto', 't': boff, 'ln': t.get('ln'), 'inl': cid}

                def env_place(pl):
                    # (*_1).N / _1.N -> the bound operand
                    if pl[0] == 1 and len(pl) > 1:
                        rest = list(pl[1:])
                        if rest and rest[0] == '*':
                            rest = rest[1:]
                        if rest and isinstance(rest[0], str):
                            m = re.fullmatch(r'\.::(\d+)', rest[0])
                            if m and int(m.group(1)) in rn.upvar:
                                return [rn.upvar[int(m.group(1))]] + rest[1:]
                    return None
                orig_place = rn.place

                def place2(pl, _orig=orig_place):
                    ep = env_place(pl)
                    return ep if ep is not None else _orig(pl)
                rn.place = place2
                for cbi, cblk in enumerate(ccb.blocks):
                    nb_ = {'s': [rn.stmt(s_) for s_ in cblk['s']], 't': rn.term(cblk['t'])}
                    if cblk.get('cl'):
                        nb_['cl'] = cblk['cl']
                    if cblk['t']['k'] == 'ret':
                        if dest:
                            nb_['s'].append({'d': list(dest), 'r': {'k': 'use', 'o': {'p': [loff + 0], 'm': 1}}, 'ln': cblk['t'].get('ln')})
                        nb_['t'] = {'k': 'goto', 't': T, 'ln': cblk['t'].get('ln'), 'ret_of': cid} if T is not None else {'k': 'unreachable'}
                    blocks.append(nb_)
                    level[boff + cbi] = level.get(bi, 0) + 1
                    stack_of[boff + cbi] = stack_of.get(bi, ()) + (cid,)
                inlined.append(cid)
                regions.append((boff, len(ccb.blocks), T, list(dest) if dest else None))
                changed = True
                continue
            # plain call
            cb = eligible(cid, bi)
            if cb is None or cb.is_async or cb.is_coroutine or cb.parent:
                continue
            if not (f.get('rloc') or f.get('loc')):
                continue
            loff = len(locs)
            boff = len(blocks)
            rn = _Renamer(loff, boff, {})
            rn.upvar = None
            for l in cb.locals:
                locs.append(dict(l))
            assigns = []
            for i, a in enumerate(t.get('args', [])):
                if i + 1 > cb.argc:
                    break
                a = dict(a)
                a.pop('m', None)
                assigns.append({'d': [loff + i + 1], 'r': {'k': 'use', 'o': a}, 'ln': t.get('ln')})
            T = t.get('t')
            dest = t.get('d')
            blk['s'] = list(blk['s']) + assigns
            blk['t'] = {'k': 'goto', 't': boff, 'ln': t.get('ln'), 'inl': cid}
            for cbi, cblk in enumerate(cb.blocks):
                nb = {'s': [rn.stmt(s) for s in cblk['s']], 't': rn.term(cblk['t'])}
                if cblk.get('cl'):
                    nb['cl'] = cblk['cl']
                if cblk['t']['k'] == 'ret':
                    if dest:
                        nb['s'].append({'d': list(dest), 'r': {'k': 'use', 'o': {'p': [loff + 0], 'm': 1}}, 'ln': cblk['t'].get('ln')})
                    if T is not None:
                        nb['t'] = {'k': 'goto', 't': T, 'ln': cblk['t'].get('ln'), 'ret_of': cid}
                    else:
                        nb['t'] = {'k': 'unreachable'}
                blocks.append(nb)
                level[boff + cbi] = level.get(bi, 0) + 1
                stack_of[boff + cbi] = stack_of.get(bi, ()) + (cid,)
            inlined.append(cid)
            regions.append((boff, len(cb.blocks), T, list(dest) if dest else None))
            changed = True
    o['inlined'] = inlined
    nb = F.Body(prog, o)
    nb.inlined = inlined
    nb.regions = regions
    return nb


_CACHE = {}


def inlined(prog, bid, keep=None, depth=2, only=None, same_file=True):
    """cached inlined view of body `bid` (for an async fn pass the fn id: its coroutine is used)"""
    b = prog.async_body(bid)
    key = (id(prog), b.id, keep if isinstance(keep, (str, type(None))) else keep.pattern, depth,
           only if isinstance(only, (str, type(None))) else only.pattern, same_file)
    if key not in _CACHE:
        _CACHE[key] = inline_body(prog, b, keep=keep, depth=depth, only=only, same_file=same_file)
    return _CACHE[key]
