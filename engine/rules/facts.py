"""Program facts (MIR dumped by engine/driver) and the analysis primitives the rules are written in.

Nothing here looks at source text: every fact comes from the type-checked program.
"""
import json
import re
import sys
from collections import defaultdict, deque


class AnchorMissing(Exception):
    """A public anchor (type / fn / field) a rule is tied to no longer exists: fail closed."""


# ------------------------------------------------------------------------------------------------
# loading
# ------------------------------------------------------------------------------------------------

class Program:
    def __init__(self, path, want_files=None):
        self.meta = None
        self.end = None
        self.bodies = {}
        self.adts = {}
        self.impls = []
        self.consts = {}
        self.path = path
        self.bodies = LazyBodies(self)
        with open(path, 'rb') as fh:
            for line in fh:
                if line.startswith(b'{"k":"body","id":"'):
                    self.bodies.add_raw(line)
                    continue
                o = json.loads(line)
                k = o['k']
                if k == 'body':
                    self.bodies[o['id']] = Body(self, o)
                elif k == 'adt':
                    self.adts[o['path']] = o
                elif k == 'impl':
                    self.impls.append(o)
                elif k == 'const':
                    self.consts[o['path']] = o
                elif k == 'meta':
                    self.meta = o
                elif k == 'end':
                    self.end = o
        if self.meta is None or self.end is None:
            raise RuntimeError('facts file %s is incomplete (driver did not finish)' % path)
        self._children = defaultdict(list)
        for bid, par in self.bodies.parents():
            self._children[par].append(bid)
        self._callers = None
        self._by_file = None

    # -- lookups
    def body(self, bid):
        b = self.bodies.get(bid)
        if b is None:
            raise AnchorMissing('function `%s` not found in the program' % bid)
        return b

    def has_body(self, bid):
        return bid in self.bodies

    def adt(self, path):
        a = self.adts.get(path)
        if a is None:
            raise AnchorMissing('type `%s` not found in the program' % path)
        return a

    def adt_fields(self, path, variant=None):
        a = self.adt(path)
        vs = a['variants']
        if variant is not None:
            vs = [v for v in vs if v['name'] == variant]
        out = []
        for v in vs:
            out += [f['name'] for f in v['fields']]
        return out

    def field_ty(self, path, field):
        a = self.adt(path)
        for v in a['variants']:
            for f in v['fields']:
                if f['name'] == field:
                    return f['ty']
        raise AnchorMissing('field `%s::%s` not found' % (path, field))

    def const_val(self, path):
        c = self.consts.get(path)
        if c is None:
            raise AnchorMissing('constant `%s` not found' % path)
        if 'v' not in c:
            return None
        return scalar(c['v'], c['ty'])

    def children(self, bid):
        """closure / async-block bodies syntactically inside `bid` (direct)."""
        return list(self._children.get(bid, []))

    def family(self, bid):
        """`bid` and every body nested in it (closures, the coroutine of an async fn, ...)."""
        out = [bid]
        q = [bid]
        while q:
            x = q.pop()
            for c in self._children.get(x, []):
                out.append(c)
                q.append(c)
        return out

    def async_body(self, bid):
        """For `async fn f`, the coroutine body `f::{closure#0}`; otherwise `f` itself."""
        b = self.body(bid)
        if b.is_async:
            c = bid + '::{closure#0}'
            if c in self.bodies:
                return self.bodies[c]
        return b

    def inl(self, bid, keep=None, depth=2, only=None, same_file=True):
        """inlined view of a body (see inline.py): in-crate helpers of the same file are spliced into it"""
        import inline
        return inline.inlined(self, bid, keep=keep, depth=depth, only=only, same_file=same_file)

    def owner_roots(self, bid, depth=3, _seen=None, stop=()):
        """the entry points on whose behalf a private helper runs: for a non-pub fn with in-crate callers, the union of
        the owners of its callers (depth-bounded); otherwise the fn itself. Used by who-writes / who-calls rules so that
        extracting part of an allowed writer into a private helper does not create a 'new writer'."""
        b = self.bodies.get(bid)
        root = b.root if b is not None else bid
        _seen = _seen if _seen is not None else set()
        if root in _seen:
            return set()
        _seen.add(root)
        rb = self.bodies.get(root)
        if rb is None or rb.is_pub or depth <= 0 or rb.impl_trait or root in stop:
            return {root}
        callers = set(self.bodies[c].root for c in self.callers_of(root))
        # an async fn is "called" by its own wrapper: look through to the callers of the poll as well
        callers |= set(self.bodies[c].root for c in self.callers_of(root + '::{closure#0}'))
        callers.discard(root)
        if not callers:
            return {root}
        out = set()
        for c in callers:
            out |= self.owner_roots(c, depth - 1, _seen, stop)
        return out or {root}

    def bodies_in_file(self, file):
        return list(self.bodies.in_files([file]))

    def impls_of(self, trait):
        return [i for i in self.impls if i.get('trait') == trait]

    def inherent_methods(self, self_ty):
        out = []
        for i in self.impls:
            if i.get('self_ty') == self_ty and 'trait' not in i:
                out += [it['def'] for it in i['items']]
        return out

    # -- call graph
    def callees(self, bid, include_nested=True):
        """resolved callee ids (strings) called from `bid` (and nested bodies)."""
        out = set()
        ids = self.family(bid) if include_nested else [bid]
        for i in ids:
            b = self.bodies.get(i)
            if b is None:
                continue
            for cs in b.calls():
                out.add(cs.callee)
                if cs.dyn_trait:
                    for tgt in self.dyn_targets(cs):
                        out.add(tgt)
        return out

    def dyn_targets(self, cs):
        """in-crate impl methods a trait-method call may dispatch to (unresolved calls only)."""
        out = []
        name = cs.declared.rsplit('::', 1)[-1]
        for i in self.impls_of(cs.dyn_trait):
            for it in i['items']:
                if it['name'] == name:
                    out.append(it['def'])
        return out

    def callers(self):
        if self._callers is None:
            d = defaultdict(set)
            for b in self.bodies.values():
                for cs in b.calls():
                    d[cs.callee].add(b.id)
                    if cs.dyn_trait:
                        for t in self.dyn_targets(cs):
                            d[t].add(b.id)
            self._callers = d
        return self._callers

    def callers_of(self, fid):
        """ids of bodies with a call whose resolved/declared callee is fid (text-prefiltered)"""
        out = []
        for b in self.bodies.containing(json.dumps(fid)):
            if any(cs.callee == fid or cs.declared == fid for cs in b.calls()):
                out.append(b.id)
        return out

    def reach(self, roots, depth=None, stop=None):
        """ids of in-crate bodies reachable through calls / nested bodies from `roots`."""
        seen = {}
        q = deque()
        for r in roots:
            if r in self.bodies and r not in seen:
                seen[r] = 0
                q.append(r)
        while q:
            x = q.popleft()
            d = seen[x]
            if depth is not None and d >= depth:
                continue
            if stop is not None and stop(x):
                continue
            nxt = set(self.children(x))
            b = self.bodies[x]
            for cs in b.calls():
                nxt.add(cs.callee)
                if cs.dyn_trait:
                    nxt.update(self.dyn_targets(cs))
            for rv in b.aggregates():
                if rv.get('def'):
                    nxt.add(rv['def'])
            for n in nxt:
                if n in self.bodies and n not in seen:
                    seen[n] = d + 1
                    q.append(n)
        return seen

    def reaches_call(self, bid, pred, depth=4, _memo=None):
        """does `bid` (transitively, depth-bounded) contain a call whose callee matches pred?"""
        if _memo is None:
            _memo = {}
        key = (bid, depth)
        if key in _memo:
            return _memo[key]
        _memo[key] = False
        res = False
        for i in self.family(bid):
            b = self.bodies.get(i)
            if b is None:
                continue
            for cs in b.calls():
                if pred(cs):
                    res = True
                    break
                if depth > 0 and cs.callee in self.bodies:
                    if self.reaches_call(cs.callee, pred, depth - 1, _memo):
                        res = True
                        break
            if res:
                break
        _memo[key] = res
        return res


class LazyBodies:
    """id -> Body, parsed on first use (the facts file is ~100 MB; most rules touch a few files)."""
    _ID = re.compile(rb'^\{"k":"body","id":("(?:[^"\\]|\\.)*")')
    _PARENT = re.compile(rb'"parent":("(?:[^"\\]|\\.)*")')
    _FILE = re.compile(rb'"file":("(?:[^"\\]|\\.)*")')

    def __init__(self, prog):
        self.prog = prog
        self.raw = {}
        self.parsed = {}
        self._par = []
        self.file_of = {}

    def add_raw(self, line):
        m = self._ID.match(line)
        bid = json.loads(m.group(1))
        self.raw[bid] = line
        head = line[:line.find(b'"locals"')] if b'"locals"' in line else line[:2000]
        pm = self._PARENT.search(head)
        if pm:
            self._par.append((bid, json.loads(pm.group(1))))
        fm = self._FILE.search(head)
        if fm:
            self.file_of[bid] = json.loads(fm.group(1))

    def parents(self):
        return self._par

    def __contains__(self, bid):
        return bid in self.raw or bid in self.parsed

    def __len__(self):
        return len(self.raw)

    def __getitem__(self, bid):
        b = self.parsed.get(bid)
        if b is None:
            b = Body(self.prog, json.loads(self.raw[bid]))
            self.parsed[bid] = b
        return b

    def __setitem__(self, bid, b):
        self.parsed[bid] = b
        self.raw.setdefault(bid, b'')

    def get(self, bid, default=None):
        if bid in self:
            return self[bid]
        return default

    def keys(self):
        return self.raw.keys()

    def __iter__(self):
        return iter(self.raw.keys())

    def items(self):
        for k in list(self.raw.keys()):
            yield k, self[k]

    def values(self):
        for k in list(self.raw.keys()):
            yield self[k]

    def containing(self, *needles):
        """bodies whose raw record contains every needle (cheap prefilter before parsing)"""
        ns = [n.encode() if isinstance(n, str) else n for n in needles]
        for k, line in self.raw.items():
            if all(n in line for n in ns):
                yield self[k]

    def in_files(self, files):
        fs = set(files)
        for k, f in self.file_of.items():
            if f in fs:
                yield self[k]


def scalar(v, ty):
    """decode the bit pattern the driver printed for an evaluated scalar constant."""
    n = int(v)
    if ty in ('i8', 'i16', 'i32', 'i64', 'i128', 'isize'):
        bits = {'i8': 8, 'i16': 16, 'i32': 32, 'i64': 64, 'i128': 128, 'isize': 64}[ty]
        if n >= 1 << (bits - 1):
            n -= 1 << bits
        return n
    if ty == 'f64':
        import struct
        return struct.unpack('<d', struct.pack('<Q', n))[0]
    if ty == 'f32':
        import struct
        return struct.unpack('<f', struct.pack('<I', n))[0]
    if ty == 'bool':
        return bool(n)
    return n


# ------------------------------------------------------------------------------------------------
# bodies
# ------------------------------------------------------------------------------------------------

class CallSite:
    __slots__ = ('body', 'bb', 'term', 'declared', 'callee', 'fa', 'args', 'dest', 'target', 'ln',
                 'dyn_trait', 'local', 'x', 'mx', 'trait')

    def __init__(self, body, bb, term):
        self.body = body
        self.bb = bb
        self.term = term
        f = term['f']
        self.declared = f.get('fn', '<indirect>')
        self.callee = f.get('r', self.declared)
        self.fa = f.get('fa', self.declared)
        self.trait = f.get('tr')
        self.local = bool(f.get('rloc') or (f.get('loc') and 'r' not in f))
        # unresolved trait-method call (dyn / generic): candidate impls are looked up by name
        self.dyn_trait = f.get('tr') if ('tr' in f and 'r' not in f) else None
        self.args = term.get('args', [])
        self.dest = term.get('d')
        self.target = term.get('t')
        self.ln = term.get('ln')
        self.x = term.get('x', 0)
        self.mx = term.get('mx')

    @property
    def name(self):
        return self.callee

    def short(self):
        return self.callee.rsplit('::', 1)[-1]

    def where(self):
        return '%s:%s' % (self.body.file, self.ln)

    def __repr__(self):
        return 'Call(%s @%s bb%d)' % (self.callee, self.where(), self.bb)


class Body:
    def __init__(self, prog, o):
        self.prog = prog
        self.o = o
        self.id = o['id']
        self.file = o['file']
        self.lo = o['lo']
        self.hi = o['hi']
        self.argc = o['argc']
        self.locals = o['locals']
        self.blocks = o['blocks']
        self.parent = o.get('parent')
        self.root = o.get('root', self.id)
        self.is_async = bool(o.get('async'))
        self.is_coroutine = bool(o.get('coroutine'))
        self.is_pub = bool(o.get('pub'))
        self.impl_self = o.get('impl_self')
        self.impl_trait = o.get('impl_trait')
        self.derived = bool(o.get('derived'))
        self._calls = None
        self._defs = None
        self._cfg = None
        self._dom = None
        self._uses = None

    def __repr__(self):
        return 'Body(%s)' % self.id

    def where(self, ln=None):
        return '%s:%s' % (self.file, ln if ln is not None else self.lo)

    def local_ty(self, l):
        return self.locals[l]['ty']

    def local_name(self, l):
        return self.locals[l].get('n')

    def param_index(self, name):
        for i in range(1, self.argc + 1):
            if self.locals[i].get('n') == name:
                return i
        return None

    def locals_named(self, name):
        return [i for i, l in enumerate(self.locals) if l.get('n') == name]

    # -- iteration
    def stmts(self):
        for bi, b in enumerate(self.blocks):
            if b.get('cl'):
                continue
            for si, s in enumerate(b['s']):
                yield bi, si, s

    def terms(self):
        for bi, b in enumerate(self.blocks):
            if b.get('cl'):
                continue
            yield bi, b['t']

    def calls(self, pred=None):
        if self._calls is None:
            cs = []
            for bi, t in self.terms():
                if t['k'] == 'call':
                    cs.append(CallSite(self, bi, t))
            self._calls = cs
        if pred is None:
            return self._calls
        if isinstance(pred, (str, re.Pattern)):
            rx = re.compile(pred) if isinstance(pred, str) else pred
            return [c for c in self._calls if rx.search(c.callee) or rx.search(c.declared)]
        return [c for c in self._calls if pred(c)]

    def aggregates(self):
        for bi, si, s in self.stmts():
            r = s['r']
            if r['k'] == 'agg':
                yield r

    # -- def / use
    def defs(self):
        """local -> list of ('s', bb, idx, stmt) | ('c', bb, term) | ('y', bb, term) definitions
        of the *whole* local (no projection)."""
        if self._defs is None:
            d = defaultdict(list)
            pd = defaultdict(list)
            for bi, si, s in self.stmts():
                pl = s['d']
                if len(pl) == 1:
                    d[pl[0]].append(('s', bi, si, s))
                else:
                    pd[pl[0]].append(('s', bi, si, s))
            for bi, t in self.terms():
                if t['k'] == 'call':
                    pl = t['d']
                    if len(pl) == 1:
                        d[pl[0]].append(('c', bi, None, t))
                    else:
                        pd[pl[0]].append(('c', bi, None, t))
            self._defs = d
            self._pdefs = pd
        return self._defs

    def partial_defs(self):
        self.defs()
        return self._pdefs

    def single_def(self, l):
        ds = self.defs().get(l, [])
        if len(ds) == 1 and l > self.argc:
            return ds[0]
        return None

    # -- CFG (edge split)
    def cfg(self):
        """nodes: 0..n-1 are blocks; further nodes are switch edges (src, value, dst).
        returns (succ, pred, edges) with edges[node] = (src, value, dst) for edge nodes."""
        if self._cfg is None:
            n = len(self.blocks)
            succ = [[] for _ in range(n)]
            edges = {}
            nxt = n
            for bi, b in enumerate(self.blocks):
                if b.get('cl'):
                    continue
                t = b['t']
                k = t['k']
                if k == 'switch':
                    for v, tgt in t['v']:
                        succ.append([tgt])
                        edges[nxt] = (bi, v, tgt)
                        succ[bi].append(nxt)
                        nxt += 1
                    succ.append([t['o']])
                    edges[nxt] = (bi, 'otherwise', t['o'])
                    succ[bi].append(nxt)
                    nxt += 1
                elif k in ('goto', 'drop', 'assert', 'yield'):
                    succ[bi].append(t['t'])
                elif k == 'call':
                    if t.get('t') is not None:
                        succ[bi].append(t['t'])
            pred = [[] for _ in range(len(succ))]
            for a, ss in enumerate(succ):
                for s in ss:
                    pred[s].append(a)
            self._cfg = (succ, pred, edges)
        return self._cfg

    def reachable_from(self, start_nodes, avoid=None):
        succ, _, _ = self.cfg()
        avoid = avoid or set()
        seen = set()
        q = [s for s in start_nodes if s not in avoid]
        seen.update(q)
        while q:
            x = q.pop()
            for y in succ[x]:
                if y not in seen and y not in avoid:
                    seen.add(y)
                    q.append(y)
        return seen

    # variant index of the usual two-variant enums (discriminant values in switch terminators)
    _VARIDX = {'Ok': 0, 'Err': 1, 'None': 0, 'Some': 1, 'Continue': 0, 'Break': 1, 'Ready': 0, 'Pending': 1}

    def _tracking_relevant(self):
        """locals whose variant can decide a later branch: operands of `discriminant(..)` / `Try::branch(..)` and, backwards,
        what they are copies of (plain moves, the Ready(..) wrapper of a spliced async helper and its payload projection).
        Facts about any other local (the many Option / Result temporaries of logging macros) are not kept: they only multiply
        the states."""
        if getattr(self, '_trk_rel', None) is not None:
            return self._trk_rel
        rel = set()
        for blk in self.blocks:
            for st in blk['s']:
                r = st['r']
                if r['k'] == 'disc' and len(r['p']) == 1:
                    rel.add(r['p'][0])
                    if len(st['d']) == 1:
                        rel.add(st['d'][0])
            t = blk['t']
            if t['k'] == 'switch' and 'p' in t['d'] and len(t['d']['p']) == 1 and self.local_ty(t['d']['p'][0]) == 'bool':
                rel.add(t['d']['p'][0])        # `if flag` on a bool local materialised from constants
            if t['k'] == 'call':
                fn = t.get('f', {})
                name = fn.get('r') or fn.get('fn') or ''
                if name.endswith('Try>::branch') or fn.get('fn', '').endswith('Try::branch'):
                    a0 = t['args'][0] if t.get('args') else None
                    if a0 is not None and 'p' in a0 and len(a0['p']) == 1:
                        rel.add(a0['p'][0])
                    if t.get('d') and len(t['d']) == 1:
                        rel.add(t['d'][0])
        changed = True
        while changed:
            changed = False
            for blk in self.blocks:
                for st in blk['s']:
                    d, r = st['d'], st['r']
                    if len(d) != 1 or d[0] not in rel:
                        continue
                    src = None
                    if r['k'] == 'use' and 'p' in r['o']:
                        src = r['o']['p'][0]
                    elif r['k'] == 'agg' and r.get('var') == 'Ready' and r.get('ops') and 'p' in r['ops'][0]:
                        src = r['ops'][0]['p'][0]
                    if src is not None and src not in rel:
                        rel.add(src)
                        changed = True
        self._trk_rel = rel
        return rel

    def reachable_tracking(self, start_nodes, avoid=None, limit=40000, parents=None):
        """like reachable_from, but path-sensitive in one respect: when a path assigns a local a known enum variant
        (`x = Err(..)`, then copies of it, `Try::branch(x)`, `discriminant(x)`), a later switch on that discriminant follows
        only the matching edge. This is what keeps the returns of a spliced helper apart: its `Err` return does not reach the
        caller's Ok continuation. Falls back to plain reachability when the state space gets large."""
        succ, _, edges = self.cfg()
        avoid = avoid or set()
        nblocks = len(self.blocks)
        seen_nodes = set()
        seen_states = set()
        rel = self._tracking_relevant()
        q = []
        for s in start_nodes:
            if s not in avoid:
                q.append((s, ()))
        budget = limit
        node = None

        def _par(y):
            if parents is not None and y not in parents:
                parents[y] = node
        while q:
            node, facts = q.pop()
            if (node, facts) in seen_states:
                continue
            seen_states.add((node, facts))
            seen_nodes.add(node)
            budget -= 1
            if budget <= 0:
                return self.reachable_from(start_nodes, avoid)
            if node >= nblocks:
                # an edge node: one successor
                for y in succ[node]:
                    if y not in avoid:
                        q.append((y, facts))
                        _par(y)
                continue
            blk = self.blocks[node]
            f = dict(facts)
            for st in blk['s']:
                d = st['d']
                r = st['r']
                if len(d) != 1:
                    if d[0] in f and not any(isinstance(p, str) and p.startswith('@') for p in d[1:]):
                        pass
                    continue
                l = d[0]
                f.pop(l, None)
                if r['k'] == 'agg' and r.get('var') == 'Ready' and r.get('ops') and 'p' in r['ops'][0] and len(r['ops'][0]['p']) == 1 \
                        and isinstance(f.get(r['ops'][0]['p'][0]), int):
                    # Poll::Ready(result of a spliced async helper): remember the variant of the payload
                    f[l] = ('rdy', f[r['ops'][0]['p'][0]])
                elif r['k'] == 'use' and 'p' in r['o'] and len(r['o']['p']) > 1 and isinstance(f.get(r['o']['p'][0]), tuple) \
                        and f[r['o']['p'][0]][0] == 'rdy' and all(isinstance(p_, str) and (p_.startswith('@Ready') or p_.endswith('::0')) for p_ in r['o']['p'][1:]):
                    f[l] = f[r['o']['p'][0]][1]
                elif r['k'] == 'use' and 'v' in r['o'] and r['o'].get('ty') == 'bool' and l in rel:
                    f[l] = ('b', int(r['o']['v']))
                elif r['k'] == 'agg' and r.get('var') in self._VARIDX:
                    f[l] = self._VARIDX[r['var']]
                elif r['k'] == 'agg' and r.get('var') and r.get('adt') in self.prog.adts:
                    # a crate-defined enum (a small step / verdict type handed between two phases of a function)
                    names = [v['name'] for v in self.prog.adts[r['adt']]['variants']]
                    if r['var'] in names and len(names) > 1:
                        f[l] = names.index(r['var'])
                elif r['k'] == 'use' and 'p' in r['o'] and len(r['o']['p']) == 1 and r['o']['p'][0] in f:
                    f[l] = f[r['o']['p'][0]]
                elif r['k'] == 'disc' and len(r['p']) == 1 and r['p'][0] in f:
                    v_ = f[r['p'][0]]
                    f[l] = ('d', 0 if isinstance(v_, tuple) and v_[0] == 'rdy' else v_)
            for l_ in [x for x in f if x not in rel]:
                del f[l_]
            t = blk['t']
            k = t['k']
            if k == 'call':
                d = t.get('d')
                fn = t.get('f', {})
                name = fn.get('r') or fn.get('fn') or ''
                if d and len(d) == 1:
                    f.pop(d[0], None)
                    if 'from_residual' in name or 'from_residual' in fn.get('fn', ''):
                        # `return Err(e.into())` of a `?`: always the failure variant
                        dty = self.local_ty(d[0])
                        if dty.startswith('std::result::Result'):
                            f[d[0]] = 1
                        elif dty.startswith('std::option::Option'):
                            f[d[0]] = 0
                    a0 = t.get('args', [None])[0] if t.get('args') else None
                    if a0 is not None and 'p' in a0 and len(a0['p']) == 1 and a0['p'][0] in f and isinstance(f[a0['p'][0]], int):
                        if name.endswith('Try>::branch') or fn.get('fn', '').endswith('Try::branch'):
                            f[d[0]] = f[a0['p'][0]]        # Ok -> Continue(0), Err -> Break(1); Some -> Continue? (Option: None=0 is Break)
                            src_var = f[a0['p'][0]]
                            # Option<T>::branch: Some(1) -> Continue(0), None(0) -> Break(1): decide by the operand's type
                            ty = self.local_ty(a0['p'][0])
                            if ty.startswith('std::option::Option'):
                                f[d[0]] = 0 if src_var == 1 else 1
                if t.get('t') is not None and t['t'] not in avoid:
                    q.append((t['t'], tuple(sorted(f.items(), key=lambda kv: kv[0]))))
                    _par(t['t'])
                continue
            nf = tuple(sorted(f.items(), key=lambda kv: kv[0]))
            if k == 'switch':
                dv = t['d']
                known = None
                if 'p' in dv and len(dv['p']) == 1 and dv['p'][0] in f and isinstance(f[dv['p'][0]], tuple) and f[dv['p'][0]][0] in ('d', 'b'):
                    known = f[dv['p'][0]][1]
                for y in succ[node]:
                    if y in avoid:
                        continue
                    e = edges.get(y)
                    if known is not None and e is not None:
                        vals = [v for v, _ in t['v']]
                        if e[1] == 'otherwise':
                            if str(known) in vals:
                                continue
                        elif int(e[1]) != known:
                            continue
                    q.append((y, nf))
                    _par(y)
                continue
            for y in succ[node]:
                if y not in avoid:
                    q.append((y, nf))
                    _par(y)
        return seen_nodes

    def dominators(self):
        """idom-free dominator sets via iterative dataflow on the edge-split graph (entry = 0)."""
        if self._dom is None:
            succ, pred, _ = self.cfg()
            reach = self.reachable_from([0])
            order = []
            seen = set()
            # reverse postorder
            stack = [(0, iter(succ[0]))]
            seen.add(0)
            post = []
            while stack:
                node, it = stack[-1]
                adv = False
                for y in it:
                    if y not in seen:
                        seen.add(y)
                        stack.append((y, iter(succ[y])))
                        adv = True
                        break
                if not adv:
                    post.append(node)
                    stack.pop()
            order = post[::-1]
            idx = {n: i for i, n in enumerate(order)}
            idom = {0: 0}
            changed = True

            def intersect(a, b):
                while a != b:
                    while idx[a] > idx[b]:
                        a = idom[a]
                    while idx[b] > idx[a]:
                        b = idom[b]
                return a

            while changed:
                changed = False
                for nnode in order[1:]:
                    ps = [p for p in pred[nnode] if p in idom]
                    if not ps:
                        continue
                    new = ps[0]
                    for p in ps[1:]:
                        new = intersect(new, p)
                    if idom.get(nnode) != new:
                        idom[nnode] = new
                        changed = True
            self._dom = idom
        return self._dom

    def dominates(self, a, b):
        """does CFG node a dominate node b?"""
        idom = self.dominators()
        if b not in idom:
            return False  # unreachable
        x = b
        while True:
            if x == a:
                return True
            if x == 0:
                return a == 0
            x = idom[x]

    def dom_chain(self, b):
        idom = self.dominators()
        out = []
        if b not in idom:
            return out
        x = b
        while True:
            out.append(x)
            if x == 0:
                break
            x = idom[x]
        return out

    def backward_locals(self, start_locals, limit=400):
        """locals in the backward data slice of the given locals (through assignments and call
        arguments, any number of definitions); an over-approximation used to name buffers"""
        seen = set()
        q = list(start_locals)
        defs = self.defs()
        pdefs = self.partial_defs()
        mw = self.mut_writes()
        while q and len(seen) < limit:
            l = q.pop()
            if l in seen:
                continue
            seen.add(l)
            for src in mw.get(l, ()):
                q.append(src)
            for d in defs.get(l, []) + pdefs.get(l, []):
                if d[0] == 's':
                    for o in _rvalue_operands(d[3]['r']):
                        if 'p' in o:
                            q.append(o['p'][0])
                else:
                    for o in d[3].get('args', []):
                        if 'p' in o:
                            q.append(o['p'][0])
        return seen

    def mut_base(self, l, depth=6):
        """the local whose storage a `&mut` temp points into: `_t = &mut X[..]` / deref_mut(&mut X)"""
        if depth <= 0:
            return None
        sd = self.single_def(l)
        if sd is None:
            return None
        kind, bi, si, s = sd
        if kind == 's':
            r = s['r']
            if r['k'] == 'ref' and r['m'] == 'mut':
                pl = r['p']
                if '*' in pl[1:]:
                    return self.mut_base(pl[0], depth - 1) or pl[0]
                return pl[0]
            if r['k'] == 'use' and 'p' in r['o']:
                return self.mut_base(r['o']['p'][0], depth - 1)
            if r['k'] == 'cast' and 'p' in r['o']:
                return self.mut_base(r['o']['p'][0], depth - 1)
            return None
        cs = CallSite(self, bi, s)
        if cs.args and 'p' in cs.args[0] and re.search(r'(deref_mut|as_mut_slice|as_mut|index_mut|borrow_mut)$', cs.callee):
            return self.mut_base(cs.args[0]['p'][0], depth - 1)
        return None

    def mut_writes(self):
        """X -> locals that flow into X through a call taking `&mut X` (copy_from_slice, fill_bytes,
        read_exact, extend_from_slice, push ...): the other arguments of that call"""
        if getattr(self, '_mw', None) is None:
            d = defaultdict(set)
            for cs in self.calls():
                bases = []
                others = []
                for a in cs.args:
                    if 'p' not in a:
                        continue
                    l = a['p'][0]
                    ty = self.local_ty(l)
                    if ty.startswith('&mut ') and len(a['p']) == 1:
                        mb = self.mut_base(l)
                        if mb is not None:
                            bases.append(mb)
                            continue
                    others.append(l)
                for x in bases:
                    for o in others:
                        d[x].add(o)
            self._mw = d
        return self._mw

    def return_blocks(self):
        return [bi for bi, t in self.terms() if t['k'] == 'ret']

    # -- switch edges
    def edge_nodes(self):
        return self.cfg()[2]

    def edges_of(self, bb):
        return [(n, e) for n, e in self.cfg()[2].items() if e[0] == bb]

    def dominating_edges(self, node):
        """switch edges (src, value, dst) that dominate `node`, innermost first."""
        edges = self.cfg()[2]
        return [(n, edges[n]) for n in self.dom_chain(node) if n in edges]

    # -- expressions
    def expr(self, op, depth=40):
        return Expr.of_operand(self, op, depth)

    def place_expr(self, pl, depth=40):
        return Expr.of_place(self, pl, depth)

    def cond_of_switch(self, bb):
        t = self.blocks[bb]['t']
        assert t['k'] == 'switch'
        return self.expr(t['d'])

    def line_of_block(self, bb):
        t = self.blocks[bb]['t']
        return t.get('ln')


def _rvalue_operands(r):
    k = r['k']
    if k in ('use', 'cast', 'repeat'):
        return [r['o']]
    if k in ('ref', 'disc', 'rawptr'):
        return [{'p': r['p']}]
    if k == 'bin':
        return [r['a'], r['b']]
    if k == 'un':
        return [r['a']]
    if k == 'agg':
        return r['ops']
    return []


# ------------------------------------------------------------------------------------------------
# expressions: bounded reconstruction of what a MIR temp holds
# ------------------------------------------------------------------------------------------------

class Expr:
    """A small tree. kinds:
       param(i,name) local(l,name) const(text,val,ty,named) fn(path) field(base,'Adt::f')
       deref(base) ref(base) index(base) downcast(base,variant) call(callee,args,site)
       bin(op,a,b) un(op,a) cast(kind,a,ty) agg(desc,ops) disc(base) unknown
    """
    __slots__ = ('k', 'a', 'b', 'c', 'd')

    def __init__(self, k, a=None, b=None, c=None, d=None):
        self.k = k
        self.a = a
        self.b = b
        self.c = c
        self.d = d

    @staticmethod
    def of_operand(body, op, depth):
        if 'p' in op:
            return Expr.of_place(body, op['p'], depth)
        if 'fn' in op:
            return Expr('fn', op.get('r', op['fn']))
        v = None
        if 'v' in op:
            v = scalar(op['v'], op['ty'])
        return Expr('const', op.get('c'), v, op.get('ty'), op.get('named'))

    @staticmethod
    def of_local(body, l, depth):
        if 1 <= l <= body.argc:
            return Expr('param', l, body.local_name(l))
        if depth <= 0:
            return Expr('local', l, body.local_name(l))
        sd = body.single_def(l)
        if sd is None or body.local_name(l) is not None and len(body.defs().get(l, [])) != 1:
            return Expr('local', l, body.local_name(l))
        kind, bi, si, s = sd
        if (kind == 's' and body.local_name(l) is not None and (body.is_coroutine or body.parent)
                and s['r']['k'] == 'use' and 'p' in s['r']['o']):
            pl = s['r']['o']['p']
            # captured variable of an async fn / closure: `name = _1.N` (or (*_1).N)
            if pl[0] == 1 and all(x == '*' or x.startswith('.::') for x in pl[1:]) and len(pl) > 1:
                return Expr('param', l, body.local_name(l))
        if kind == 'c':
            cs = CallSite(body, bi, s)
            e = Expr('call', cs.callee, [Expr.of_operand(body, a, depth - 1) for a in cs.args], cs)
        else:
            e = Expr.of_rvalue(body, s['r'], depth - 1)
        if body.local_name(l) is not None:
            # keep the identity of user variables: let(l, name, value); renders as its value
            return Expr('let', l, body.local_name(l), e)
        return e

    @staticmethod
    def of_rvalue(body, r, depth):
        k = r['k']
        if k == 'use':
            return Expr.of_operand(body, r['o'], depth)
        if k == 'ref':
            return Expr('ref', Expr.of_place(body, r['p'], depth))
        if k == 'bin':
            return Expr('bin', r['op'], Expr.of_operand(body, r['a'], depth), Expr.of_operand(body, r['b'], depth))
        if k == 'un':
            return Expr('un', r['op'], Expr.of_operand(body, r['a'], depth))
        if k == 'cast':
            return Expr('cast', r['ck'], Expr.of_operand(body, r['o'], depth), r['ty'])
        if k == 'disc':
            return Expr('disc', Expr.of_place(body, r['p'], depth))
        if k == 'agg':
            desc = r.get('adt') or r.get('def') or r.get('ak')
            if r.get('var') and r.get('adt'):
                desc = '%s::%s' % (r['adt'], r['var'])
            return Expr('agg', desc, [Expr.of_operand(body, o, depth) for o in r['ops']], r.get('fields'), r.get('ak'))
        if k == 'repeat':
            return Expr('agg', 'repeat', [Expr.of_operand(body, r['o'], depth)], None, 'repeat')
        return Expr('unknown', k)

    @staticmethod
    def of_place(body, pl, depth):
        e = None
        rest = pl[1:]
        if pl[0] == 1 and body.parent and len(pl) > 1:
            # captured variable of a closure / async block: `(*_1).N` or `_1.N` with a debug name
            for uv in body.o.get('upvars', []):
                up = uv['p']
                if up[0] == 1 and len(up) <= len(pl) and pl[:len(up)] == up and any(str(x).startswith('.') for x in up[1:]):
                    e = Expr('param', 1000 + up.index([x for x in up[1:] if str(x).startswith('.')][0]), uv['n'])
                    rest = pl[len(up):]
                    break
        if e is None:
            e = Expr.of_local(body, pl[0], depth)
        for p in rest:
            inner = e.c if e.k == 'let' else e
            if p.startswith('.') and inner is not e and (
                    (inner.k == 'downcast') or (inner.k == 'bin' and inner.a.endswith('WithOverflow'))):
                e = inner
            if p.startswith('@') and inner is not e and inner.k == 'call':
                e = inner
            if p == '*':
                if e.k == 'ref':
                    e = e.a
                else:
                    e = Expr('deref', e)
            elif p.startswith('.'):
                # tuple field of an overflow-checked op: (a+b).0 -> a+b
                if e.k == 'bin' and e.a.endswith('WithOverflow') and p == '.::0':
                    e = Expr('bin', e.a[:-len('WithOverflow')], e.b, e.c)
                elif (e.k == 'downcast' and e.b == 'Continue' and e.a.k == 'call' and e.a.b
                      and (e.a.a.endswith('Try>::branch') or e.a.a.endswith('Try::branch'))):
                    # (branch(x) as Continue).0  ==  x?
                    e = Expr('try', _ok_value(body, e.a.b[0], depth), e.a.c)
                elif (e.k == 'downcast' and e.b == 'Ready' and e.a.k == 'call' and e.a.b
                      and e.a.c is not None and e.a.c.declared.endswith('Future::poll')):
                    # (poll(Pin(&mut awaitee)) as Ready).0  ==  awaitee.await
                    e = Expr('await', _awaitee(body, e.a.b[0], depth), e.a.c)
                else:
                    # projecting a field out of an aggregate whose construction is visible gives the operand it was built
                    # from (a small struct / tuple carrying values between two phases, the Ready(..) of a spliced async helper)
                    ag = e
                    while ag.k in ('let', 'try'):
                        ag = ag.c if ag.k == 'let' else ag.a
                    if ag.k == 'downcast' and ag.a.k in ('agg', 'let'):
                        inner_ag = ag.a
                        while inner_ag.k == 'let':
                            inner_ag = inner_ag.c
                        if inner_ag.k == 'agg' and isinstance(inner_ag.a, str) and inner_ag.a.endswith('::' + str(ag.b)):
                            ag = inner_ag
                    fname = p[1:].rsplit('::', 1)[-1]
                    picked = None
                    if ag.k == 'downcast' and fname == '0' and ag.b in ('Some', 'Ok') and ag.a.strip().k == 'local':
                        # (x as Some).0 where x is the result local of a spliced helper with one `Some(v)` return and any number
                        # of `None` / error returns: v
                        vv = _ok_value(body, ag.a, depth, var=str(ag.b), only_agg=True)
                        if vv is not ag.a:
                            picked = vv
                    if ag.k == 'agg' and isinstance(ag.b, list):
                        if ag.c and fname in ag.c and len(ag.c) == len(ag.b):
                            picked = ag.b[ag.c.index(fname)]
                        elif ag.d == 'tuple' and fname.isdigit() and int(fname) < len(ag.b):
                            picked = ag.b[int(fname)]
                    e = picked if picked is not None else Expr('field', e, p[1:])
            elif p.startswith('['):
                e = Expr('index', e, p)
            elif p.startswith('@'):
                e = Expr('downcast', e, p[1:])
            else:
                e = Expr('field', e, p)
        return e

    # -- rendering: canonical text used by rules for matching
    #    (try(x) = `x?`, await(x) = `x.await`)
    def show(self):
        k = self.k
        if k == 'let':
            return self.c.show()
        if k == 'param':
            return self.b or ('arg%d' % self.a)
        if k == 'local':
            return self.b or ('_%d' % self.a)
        if k == 'const':
            if self.d:
                return self.d
            return str(self.a)
        if k == 'fn':
            return 'fn ' + self.a
        if k == 'field':
            return '%s.%s' % (self.a.show(), self.b.rsplit('::', 1)[-1])
        if k == 'deref':
            return '*' + self.a.show()
        if k == 'ref':
            return '&' + self.a.show()
        if k == 'index':
            return '%s%s' % (self.a.show(), self.b)
        if k == 'downcast':
            return '(%s as %s)' % (self.a.show(), self.b)
        if k == 'call':
            return '%s(%s)' % (self.a, ', '.join(x.show() for x in self.b))
        if k == 'bin':
            return '(%s %s %s)' % (self.b.show(), self.a, self.c.show())
        if k == 'un':
            return '%s(%s)' % (self.a, self.b.show())
        if k == 'cast':
            return '(%s as %s)' % (self.b.show(), self.c)
        if k == 'disc':
            return 'disc(%s)' % self.a.show()
        if k == 'try':
            return '%s?' % self.a.show()
        if k == 'await':
            return '%s.await' % self.a.show()
        if k == 'agg':
            return '%s{%s}' % (self.a, ', '.join(x.show() for x in self.b))
        return '?' + str(self.a)

    def __repr__(self):
        return self.show()

    def brief(self, limit=400):
        """abbreviated rendering for reports (never used for matching)"""
        t = self.show()
        for _ in range(6):
            t2 = re.sub(r'::<[^<>]*>', '', t)
            t2 = re.sub(r"<([^<>]*?) as [^<>]*?>::", lambda m: m.group(1).rsplit('::', 1)[-1] + '::', t2)
            if t2 == t:
                break
            t = t2
        t = re.sub(r'\b(?:std|core|alloc|tokio)::(?:[a-z_0-9]+::)*', '', t)
        t = re.sub(r'\b(?:[a-z_0-9]+::)+(?=[A-Z])', '', t)
        if len(t) > limit:
            t = t[:limit] + '...'
        return t

    def walk(self):
        yield self
        k = self.k
        subs = []
        if k == 'let':
            subs = [self.c]
        elif k in ('field', 'deref', 'ref', 'index', 'downcast', 'disc', 'try', 'await'):
            subs = [self.a]
        elif k == 'call':
            subs = self.b
        elif k == 'bin':
            subs = [self.b, self.c]
        elif k in ('un', 'cast'):
            subs = [self.b]
        elif k == 'agg':
            subs = self.b
        for s in subs:
            for x in s.walk():
                yield x

    def strip(self):
        """peel refs / derefs / copies-through-clone"""
        e = self
        while True:
            if e.k == 'let':
                e = e.c
            elif e.k in ('ref', 'deref'):
                e = e.a
            elif e.k == 'call' and TRANSPARENT.match(e.a) and e.b:
                e = e.b[0]
            elif e.k == 'cast' and e.a.startswith('PointerCoercion'):
                e = e.b
            else:
                return e

    def field_path(self):
        """('root expr', ['f1','f2']) for nested field accesses (through refs/derefs)"""
        fs = []
        e = self.strip()
        while e.k == 'field':
            fs.append(e.b.rsplit('::', 1)[-1])
            e = e.a.strip()
        return e, fs[::-1]

    def mentions_call(self, rx):
        r = re.compile(rx) if isinstance(rx, str) else rx
        for x in self.walk():
            if x.k == 'call' and r.search(x.a):
                return x
        return None

    def const_value(self):
        e = self.strip()
        if e.k == 'const':
            return e.b
        if e.k == 'cast' and e.b.k == 'const':
            return e.b.b
        return None


def _ok_value(body, arg, depth, var='Ok', only_agg=False):
    """for `x?` where x is a local with several definitions (the result of a spliced helper: one `Ok(v)` and any number of
    error returns): the expression of the single Ok definition, so that the provenance of the success value stays visible.
    Anything else is returned unchanged."""
    a = arg
    for _ in range(4):
        st = a.strip()
        if st.k != 'local' or not isinstance(st.a, int):
            return arg
        ds = body.defs().get(st.a, [])
        if len(ds) < 2:
            return arg
        srcs = set()
        oks = []
        calls = []
        other = False
        for d in ds:
            if d[0] == 's':
                r = d[3]['r']
                if r['k'] == 'use' and 'p' in r['o'] and len(r['o']['p']) == 1:
                    srcs.add(r['o']['p'][0])
                elif r['k'] == 'agg' and r.get('var') == var:
                    oks.append(d)
                elif r['k'] == 'agg' and r.get('var') in ('Err', 'None', 'Ok', 'Some'):
                    pass
                else:
                    other = True
            else:
                t = d[3]
                f = t.get('f', {})
                if 'from_residual' not in (f.get('r') or f.get('fn') or ''):
                    calls.append(d)
        if other:
            return arg
        if len(oks) == 1 and not srcs and not calls:
            # `Ok(v)?` is v
            r = oks[0][3]['r']
            return Expr.of_operand(body, r['ops'][0], max(depth - 1, 8)) if r.get('ops') else arg
        if only_agg and not (len(srcs) == 1 and not oks and not calls):
            return arg
        if len(calls) == 1 and not srcs and not oks:
            cs = CallSite(body, calls[0][1], calls[0][3])
            inner = Expr('call', cs.callee, [Expr.of_operand(body, x, max(depth - 1, 8)) for x in cs.args], cs)
            return inner
        if len(srcs) == 1 and not oks and not calls:
            a = Expr('local', next(iter(srcs)), body.local_name(next(iter(srcs))))
            continue
        return arg
    return arg


def _awaitee(body, pin_expr, depth):
    """the future expression behind Pin::new_unchecked(&mut *(&mut awaitee))"""
    for y in pin_expr.walk():
        if y.k == 'let':
            aw = y.c
            while aw.k == 'call' and (aw.a.endswith('IntoFuture>::into_future') or aw.a.endswith('IntoFuture::into_future')):
                aw = aw.b[0]
            return aw
        if y.k == 'local':
            ds = body.defs().get(y.a, [])
            if len(ds) == 1:
                d = ds[0]
                if d[0] == 's':
                    aw = Expr.of_rvalue(body, d[3]['r'], depth - 1)
                else:
                    cs = CallSite(body, d[1], d[3])
                    aw = Expr('call', cs.callee, [Expr.of_operand(body, a, depth - 1) for a in cs.args], cs)
                # peel into_future
                while aw.k == 'call' and aw.a.endswith('IntoFuture>::into_future') or \
                        (aw.k == 'call' and aw.a.endswith('IntoFuture::into_future')):
                    aw = aw.b[0]
                return aw
            return y
    return pin_expr


# calls whose result "is" their first argument as far as value identity goes
TRANSPARENT = re.compile(
    r'^(<.* as (core|std)::clone::Clone>::clone|<.* as (core|std)::ops::Deref>::deref|'
    r'<.* as (core|std)::ops::DerefMut>::deref_mut|<.* as (core|std)::convert::AsRef<.*>>::as_ref|'
    r'<.* as (core|std)::borrow::Borrow<.*>>::borrow|'
    r'(core|std)::clone::Clone::clone|(core|std)::ops::Deref::deref|(core|std)::ops::DerefMut::deref_mut|'
    r'(core|std)::convert::AsRef::as_ref|(core|std)::borrow::Borrow::borrow|'
    r'(std|alloc)::string::String::as_str|(std|alloc)::vec::Vec::<.*>::as_slice|'
    r'(std|alloc)::string::String::as_bytes|core::str::<impl str>::as_bytes|'
    r'(std|alloc)::borrow::ToOwned::to_owned|<.* as (std|alloc)::borrow::ToOwned>::to_owned|'
    r'(std|alloc)::slice::<impl \[.*\]>::to_vec|'
    r'<.* as (core|std)::convert::Into<.*>>::into|<.* as (core|std)::convert::From<.*>>::from|'
    r'(core|std)::convert::Into::into|(core|std)::convert::From::from|'
    r'(core|std)::pin::Pin::<.*>::new_unchecked|(core|std)::pin::Pin::<.*>::new|'
    r'<.* as (core|std)::future::IntoFuture>::into_future|(core|std)::future::IntoFuture::into_future'
    r')$')


# calls that keep the Ok/Err (Some/None) status of their first argument
RESULT_PASS = re.compile(r'(Result::<.*>::(map_err|map|inspect_err|inspect)|Option::<.*>::(ok_or|ok_or_else|map)|'
                         r'anyhow::Context<.*>>::(context|with_context)|Context>::(context|with_context))$')


# ------------------------------------------------------------------------------------------------
# helpers used by many rules
# ------------------------------------------------------------------------------------------------

CMP_FLIP = {'Lt': 'Gt', 'Gt': 'Lt', 'Le': 'Ge', 'Ge': 'Le', 'Eq': 'Eq', 'Ne': 'Ne'}
CMP_NEG = {'Lt': 'Ge', 'Gt': 'Le', 'Le': 'Gt', 'Ge': 'Lt', 'Eq': 'Ne', 'Ne': 'Eq'}


class Cond:
    """a boolean fact that holds on a CFG edge: cmp(op, lhs, rhs) | call(expr, truth) | disc(expr, value)"""

    def __init__(self, kind, op=None, lhs=None, rhs=None, truth=True, expr=None, value=None, raw=None,
                 edge=None):
        self.kind = kind
        self.op = op
        self.lhs = lhs
        self.rhs = rhs
        self.truth = truth
        self.expr = expr
        self.value = value
        self.raw = raw
        self.edge = edge

    def show(self):
        if self.kind == 'cmp':
            return '%s %s %s' % (self.lhs.show(), self.op, self.rhs.show())
        if self.kind == 'disc':
            return 'disc(%s) == %s' % (self.expr.show(), self.value)
        return '%s%s' % ('' if self.truth else '!', self.expr.show())

    __repr__ = show

    def variant_is(self, idx, nvariants=2):
        """for a discriminant fact: is the value certainly variant `idx` (Option/Result/Poll have
        two variants, so `not 1` means 0)"""
        if self.kind not in ('disc', 'int'):
            return False
        if self.value == idx:
            return True
        if isinstance(self.value, tuple) and self.value[0] == 'not':
            excluded = set(int(v) for v in self.value[1])
            rest = set(range(nvariants)) - excluded
            return rest == {idx}
        return False

    def brief(self, limit=200):
        if self.kind == 'cmp':
            return '%s %s %s' % (self.lhs.brief(limit), self.op, self.rhs.brief(limit))
        if self.kind in ('disc', 'int'):
            return 'disc(%s) == %s' % (self.expr.brief(limit), self.value)
        return '%s%s' % ('' if self.truth else '!', self.expr.brief(limit))


def edge_cond(body, edge):
    """the Cond that holds when switch edge (src, value, dst) is taken."""
    src, val, dst = edge
    t = body.blocks[src]['t']
    e = body.expr(t['d'])
    # value '0' edge of a bool switch = false; 'otherwise' of a switch with only a '0' arm = true
    vals = [v for v, _ in t['v']]
    return _cond_from(body, e, val, vals, edge)


def _cond_from(body, e, val, vals, edge):
    neg = False
    while True:
        if e.k == 'let':
            e = e.c
        elif e.k == 'un' and e.a == 'Not':
            e = e.b
            neg = not neg
        else:
            break
    dty = None
    if e.k == 'disc':
        if val == 'otherwise':
            return Cond('disc', expr=e.a, value=('not', tuple(vals)), edge=edge)
        return Cond('disc', expr=e.a, value=int(val), edge=edge)
    # boolean switch
    if vals == ['0']:
        truth = (val == 'otherwise')
    elif vals == ['1']:
        truth = (val == '1')
    else:
        # integer match
        if val == 'otherwise':
            return Cond('int', expr=e, value=('not', tuple(vals)), edge=edge)
        return Cond('int', expr=e, value=int(val), edge=edge)
    if neg:
        truth = not truth
    if e.k == 'bin' and e.a in CMP_NEG:
        op = e.a if truth else CMP_NEG[e.a]
        return Cond('cmp', op=op, lhs=e.b, rhs=e.c, edge=edge, raw=e)
    return Cond('bool', expr=e, truth=truth, edge=edge)


def bool_local_conds(body, l, truth, expand=True, _depth=1):
    """what is known when bool local `l` is found to be `truth`: if exactly one of its definitions can have given it that value
    (the others assign the opposite constant — `let ok = a && b;` lowers to `ok = false` on one arm and `ok = b` on the other), the
    conditions dominating that definition and, when it is not a constant, the defining expression having that value."""
    ds = body.defs().get(l, [])
    cands = []
    for d in ds:
        if d[0] != 's':
            return []
        r = d[3]['r']
        if r['k'] == 'use' and 'v' in r['o'] and r['o'].get('ty') == 'bool':
            if bool(int(r['o']['v'])) == truth:
                cands.append((d[1], None))
        else:
            cands.append((d[1], d[3]))
    if len(cands) != 1 or _depth > 4:
        return []
    bb, stmt = cands[0]
    out = dominating_conds(body, bb, expand, _depth)
    if stmt is not None and len(ds) > 1:
        e = Expr.of_rvalue(body, stmt['r'], 20)
        c2 = _cond_from(body, e, 'otherwise' if truth else '0', ['0'], None)
        out.append(c2)
        if c2.kind == 'bool' and c2.expr.k == 'local' and c2.expr.a != l:
            out += bool_local_conds(body, c2.expr.a, c2.truth, expand, _depth + 1)
    return out


def dominating_conds(body, node, expand=True, _depth=0):
    """all Conds known to hold at CFG node `node` because a switch edge dominates it.

    With expand, a test of a bool local that is materialised from constants
    (`let ok = matches!(x, V)`; `if ok {..}`) also contributes the conditions that dominate the one
    assignment giving it the tested value."""
    out = []
    if _depth == 0 and getattr(body, 'regions', None):
        for arm, conds, _en in region_success_conds(body):
            if body.dominates(arm, node):
                out += conds
    for n, edge in body.dominating_edges(node):
        c = edge_cond(body, edge)
        out.append(c)
        if expand and _depth < 4 and c.kind == 'bool' and c.expr.k == 'local':
            out += bool_local_conds(body, c.expr.a, c.truth, expand, _depth + 1)
    return out


def region_success_conds(body):
    """for an inlined body: per spliced helper whose result is tested by `?` / a match on Ok-Some, the branch conditions
    inside the helper that hold on every path to its success continuation (all returns of the helper share one continuation
    block, so plain dominance cannot see them). returns [(ok_arm_node, [Cond])], cached on the body."""
    if getattr(body, '_rsc', None) is not None:
        return body._rsc
    out = []
    regions = getattr(body, 'regions', None) or []
    succ, _, edges = body.cfg()
    for (first, nblk, cont, dest) in regions:
        if cont is None or not dest or len(dest) != 1:
            continue
        # the switch on the helper's result: follow straight-line code from the continuation
        cur = cont
        arm = None
        tracked = {dest[0]}
        for _ in range(12):
            blk = body.blocks[cur]
            for st in blk['s']:
                r = st['r']
                if len(st['d']) == 1 and ((r['k'] == 'use' and 'p' in r['o'] and r['o']['p'][0] in tracked and len(r['o']['p']) == 1) or
                                          (r['k'] == 'disc' and r['p'][0] in tracked and len(r['p']) == 1)):
                    tracked.add(st['d'][0])
            t = blk['t']
            if t['k'] == 'switch':
                dv = t['d']
                if 'p' in dv and dv['p'][0] in tracked:
                    # success arm: Continue(0) after Try::branch; Ok(0) of a Result; Some(1) of an Option
                    ty = body.local_ty(dest[0])
                    want = '1' if (ty.startswith('std::option::Option') and not getattr(body, '_via_branch', False)) else '0'
                    for n_, e_ in body.edges_of(cur):
                        if e_[1] == want:
                            arm = n_
                break
            if t['k'] == 'call':
                fn = t.get('f', {})
                a0 = t.get('args', [None])[0] if t.get('args') else None
                if a0 is not None and 'p' in a0 and a0['p'][0] in tracked and t.get('d') and len(t['d']) == 1 and \
                        ((fn.get('r') or '').endswith('Try>::branch') or fn.get('fn', '').endswith('Try::branch')):
                    tracked.add(t['d'][0])
                    body._via_branch = True
                nxt = t.get('t')
            elif t['k'] in ('goto', 'drop', 'assert'):
                nxt = t['t']
            else:
                break
            if nxt is None:
                break
            cur = nxt
        body._via_branch = False
        if arm is None:
            continue
        region_blocks = set(range(first, first + nblk))
        conds = []
        enodes = set()
        for n_, e_ in edges.items():
            if e_[0] not in region_blocks:
                continue
            reach = body.reachable_tracking([first], {n_})
            if arm not in reach:
                conds.append(edge_cond(body, e_))
                enodes.add(n_)
        out.append((arm, conds, enodes))
    body._rsc = out
    return out


def holds_at(body, edge_node, node):
    """is the branch edge `edge_node` taken on every path to `node`? plain dominance, or — for an edge inside a spliced helper —
    membership in the helper's success edges when the helper's success arm dominates `node`"""
    if body.dominates(edge_node, node):
        return True
    if getattr(body, 'regions', None):
        for arm, _conds, enodes in region_success_conds(body):
            if edge_node in enodes and body.dominates(arm, node):
                return True
    return False


def norm_cmp(c):
    """(op, lhs_text, rhs_text) with the textually smaller operand first, so a<b and b>a compare equal"""
    l, r = c.lhs.show(), c.rhs.show()
    op = c.op
    if r < l:
        l, r = r, l
        op = CMP_FLIP[op]
    return op, l, r


def try_edges(body, cs):
    """for `call(..)?` / `call(..).await?` / `call(..).map_err(..)?`: find the Try::branch applied to
    the call's result and return (continue_edge_node, break_edge_node), else None.
    The search follows the value forward through moves, Ok/Err-preserving adapters and the
    Poll::Ready arm of an await loop (bounded)."""
    if cs.target is None or cs.dest is None:
        return None
    aliases = {cs.dest[0]}
    seen = set()
    order = []
    q = deque([cs.target])
    while q and len(order) < 60:
        cur = q.popleft()
        if cur in seen:
            continue
        seen.add(cur)
        order.append(cur)
        t = body.blocks[cur]['t']
        k = t['k']
        if k == 'switch':
            # only a Poll / discriminant switch of an alias is followed (Ready arm and friends)
            for v, tgt in t['v']:
                q.append(tgt)
            q.append(t['o'])
        elif k in ('goto', 'drop', 'assert'):
            q.append(t['t'])
        elif k == 'call' and t.get('t') is not None:
            q.append(t['t'])
    for _ in range(2):
        for cur in order:
            b = body.blocks[cur]
            for s in b['s']:
                r = s['r']
                if r['k'] == 'use' and 'p' in r['o'] and r['o']['p'][0] in aliases and len(s['d']) == 1:
                    aliases.add(s['d'][0])
            t = b['t']
            if t['k'] == 'call' and t.get('args'):
                a0 = t['args'][0]
                if 'p' in a0 and a0['p'][0] in aliases:
                    c2 = CallSite(body, cur, t)
                    if c2.callee.endswith('Try>::branch') or c2.declared.endswith('Try::branch'):
                        nb = c2.target
                        for _i in range(3):
                            tt = body.blocks[nb]['t']
                            if tt['k'] == 'switch':
                                cont = brk = None
                                for n, e in body.edges_of(nb):
                                    if e[1] == '0':
                                        cont = n
                                    elif e[1] == '1':
                                        brk = n
                                return cont, brk
                            if tt['k'] == 'goto':
                                nb = tt['t']
                            else:
                                break
                        return None
                    if TRANSPARENT.match(c2.callee) or RESULT_PASS.search(c2.callee):
                        if c2.dest:
                            aliases.add(c2.dest[0])
    return None


def block_of_node(body, node):
    n = len(body.blocks)
    if node < n:
        return node
    return body.cfg()[2][node][0]


def ret_value_defs(body):
    """statements/calls assigning the return place _0: list of (bb, idx|None, rvalue-or-call)"""
    out = []
    for d in body.defs().get(0, []):
        out.append(d)
    return out
