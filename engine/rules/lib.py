"""Rule templates shared by the property modules (GATE, MUST-PASS, PAIR, ATOMIC, WHO-WRITES, ...)."""
import json
import re
import facts as F

GUARD_TY = re.compile(r'(RwLockWriteGuard|RwLockReadGuard|MutexGuard|OwnedRwLockWriteGuard|OwnedRwLockReadGuard|'
                      r'OwnedMutexGuard|MappedMutexGuard|RwLockMappedWriteGuard)')
LOCK_ACQ = re.compile(r'(RwLock::<.*>::(write|read|try_write|try_read|write_owned|read_owned)|'
                      r'Mutex::<.*>::(lock|try_lock|lock_owned)|'
                      r'lock_api::.*::(write|read|lock))$')


# ------------------------------------------------------------------------------------------------
# lock guards
# ------------------------------------------------------------------------------------------------

class Guard:
    def __init__(self, body, local, acq, lock_expr, mode):
        self.body = body
        self.local = local          # the local that finally owns the guard
        self.acq = acq              # CallSite of the acquisition
        self.lock_expr = lock_expr  # Expr of the lock object (e.g. self.counters)
        self.mode = mode            # 'write' | 'read' | 'lock'
        self.drops = [bi for bi, t in body.terms() if t['k'] == 'drop' and t['p'] == [local]]

    def lock_field(self):
        root, path = self.lock_expr.field_path()
        return path[-1] if path else None

    def lock_path(self):
        root, path = self.lock_expr.field_path()
        return root.show() + ''.join('.' + p for p in path)

    def __repr__(self):
        return 'Guard(_%d %s %s)' % (self.local, self.mode, self.lock_path())


def guards(body):
    """every lock guard held in a local of `body`: acquisition call -> owning local (through
    map_err / `?` / unwrap / await plumbing) -> drop points."""
    out = []
    for l, decl in enumerate(body.locals):
        if not GUARD_TY.search(decl['ty']):
            continue
        ty = decl['ty']
        # owning locals only: type is the guard itself (not Result<Guard,..>, not &Guard, not Poll<..>)
        if not re.match(r'^(std::sync::|tokio::sync::|parking_lot::|lock_api::)?[A-Za-z_:]*(%s)<' % GUARD_TY.pattern[1:-1], ty):
            continue
        if not any(t['k'] == 'drop' and t['p'] == [l] for _, t in body.terms()):
            # moved on (e.g. _22 -> _10): the final owner is the one that is dropped
            continue
        e = F.Expr.of_local(body, l, 14)
        acq = None
        for x in e.walk():
            if x.k == 'call' and LOCK_ACQ.search(x.a):
                acq = x
                break
        if acq is None:
            # async locks: guard comes out of poll(..) of the acquisition future
            acq = find_async_acq(body, l)
            if acq is None:
                continue
        mode = acq.a.rsplit('::', 1)[-1]
        mode = {'write': 'write', 'read': 'read', 'lock': 'lock', 'try_write': 'write', 'try_read': 'read',
                'try_lock': 'lock', 'write_owned': 'write', 'read_owned': 'read', 'lock_owned': 'lock'}.get(mode, mode)
        lock_expr = acq.b[0] if acq.b else F.Expr('unknown', 'lock')
        out.append(Guard(body, l, acq.c, lock_expr, mode))
    return out


def awaited_call(body, l, depth=14):
    """if local l holds the output of `<call>(..).await`, return the Expr of the call producing the
    future. Shape: fut = call(..); into_future(fut) -> awaitee; loop { poll(Pin(&mut awaitee)) ; yield }
    ; l = (poll_result as Ready).0"""
    e = F.Expr.of_local(body, l, depth)
    return awaited_in_expr(body, e)


def awaited_in_expr(body, e):
    for x in e.walk():
        if x.k == 'call' and x.c is not None and x.b and is_poll_call(x):
            # x.b[0] = Pin::new_unchecked(&mut *(&mut awaitee))
            pin = x.b[0]
            for y in pin.walk():
                if y.k == 'local':
                    # awaitee local: single def = move of into_future result
                    aw = F.Expr.of_local(body, y.a, 10)
                    if aw.k == 'local':
                        # named `__awaitee` with one def: expand manually
                        ds = body.defs().get(y.a, [])
                        if len(ds) == 1:
                            d = ds[0]
                            if d[0] == 's':
                                aw = F.Expr.of_rvalue(body, d[3]['r'], 10)
                            else:
                                cs = F.CallSite(body, d[1], d[3])
                                aw = F.Expr('call', cs.callee, [F.Expr.of_operand(body, a, 10) for a in cs.args], cs)
                    return aw.strip()
    return None


def is_poll_call(x):
    """a call expr that is Future::poll (resolved polls show the coroutine body or a `poll` method)"""
    cs = x.c
    if cs is None:
        return False
    return cs.declared.endswith('Future::poll') or cs.declared.endswith('future::Future::poll')


def find_async_acq(body, l):
    aw = awaited_call(body, l)
    if aw is not None and aw.k == 'call' and LOCK_ACQ.search(aw.a):
        return aw
    return None


def reach_between(body, a, b, avoid=()):
    """is block b reachable from block a (a != b allowed to be equal => trivially true)?"""
    if a == b:
        return True
    return b in body.reachable_from([a], set(avoid))


def atomic_section(body, guard, a, b):
    """check `a` and act `b` (blocks) are inside one live range of `guard`: acquisition dominates
    both, and no drop of the guard and no await point lies on a path a -> b.
    returns (ok, reason)"""
    acq_bb = guard.acq.bb
    if not (body.dominates(acq_bb, a) and body.dominates(acq_bb, b)):
        return False, 'lock acquisition at bb%d does not dominate both the check and the update' % acq_bb
    avoid = {acq_bb, a}
    from_a = body.reachable_from([a])
    for d in guard.drops:
        if d in from_a and reach_between(body, d, b, avoid - {d}):
            return False, 'the guard is dropped (bb%d, line %s) between the check and the update' % (d, body.line_of_block(d))
    for bi, t in body.terms():
        if t['k'] == 'yield' and bi in from_a and reach_between(body, bi, b, avoid - {bi}):
            return False, 'an await point (line %s) lies between the check and the update' % t.get('ln')
    return True, 'check and update both inside the live range of %s' % guard


# ------------------------------------------------------------------------------------------------
# WHO-WRITES
# ------------------------------------------------------------------------------------------------

def field_writes(prog, adt, field):
    """every statement / call destination / &mut borrow whose place goes through `adt::field`.
    yields (body, bb, kind, thing) with kind in assign | call-dest | mut-borrow | aggregate"""
    tag = '.%s::%s' % (adt, field)
    out = []
    cands = {}
    for b in prog.bodies.containing(json.dumps(tag)):
        cands[b.id] = b
    for b in prog.bodies.containing(json.dumps(adt), json.dumps(field)):
        cands[b.id] = b
    for b in cands.values():
        for bi, si, s in b.stmts():
            d = s['d']
            if tag in d[1:]:
                out.append((b, bi, 'assign', s))
            r = s['r']
            if r['k'] == 'ref' and r['m'] == 'mut' and tag in r['p'][1:]:
                # a &mut to (a prefix ending in) the field itself, not to something beyond a later Deref
                idx = r['p'].index(tag)
                rest = r['p'][idx + 1:]
                if '*' not in rest:
                    out.append((b, bi, 'mut-borrow', s))
            if r['k'] == 'agg' and r.get('adt') == adt and field in (r.get('fields') or []):
                out.append((b, bi, 'aggregate', s))
        for bi, t in b.terms():
            if t['k'] == 'call' and tag in t['d'][1:]:
                out.append((b, bi, 'call-dest', t))
    return out


def agg_field_operand(stmt, field):
    r = stmt['r']
    fs = r.get('fields') or []
    if field in fs and len(fs) == len(r['ops']):
        return r['ops'][fs.index(field)]
    return None


# ------------------------------------------------------------------------------------------------
# linear constraints x ~ y + c  (used for "accepted implies seq == last + 1" style gates)
# ------------------------------------------------------------------------------------------------

def linear(e):
    """e as (base_text, offset) if it has the shape base (+|-) const, else (text, 0)"""
    e = e.strip()
    if e.k == 'bin' and e.a in ('Add', 'Sub'):
        cv = e.c.const_value()
        if cv is not None and not isinstance(cv, bool):
            bt, off = linear(e.b)
            return bt, off + (cv if e.a == 'Add' else -cv)
        cv = e.b.const_value()
        if cv is not None and e.a == 'Add' and not isinstance(cv, bool):
            bt, off = linear(e.c)
            return bt, off + cv
    if e.k == 'call' and re.search(r'::(saturating_add|wrapping_add|checked_add)$', e.a) and len(e.b) == 2:
        cv = e.b[1].const_value()
        if cv is not None:
            bt, off = linear(e.b[0])
            return bt, off + cv
    return e.show(), 0


def bounds_from_conds(conds, xpred, ypred):
    """from comparison facts between an expression matching xpred and one matching ypred, derive
    (lo, hi) such that  y + lo <= x <= y + hi  (None = unbounded)."""
    lo = hi = None
    used = []
    for c in conds:
        if c.kind != 'cmp':
            continue
        lt, lo_off = linear(c.lhs)
        rt, r_off = linear(c.rhs)
        op = c.op
        if xpred(lt) and ypred(rt):
            pass
        elif xpred(rt) and ypred(lt):
            lt, rt, lo_off, r_off = rt, lt, r_off, lo_off
            op = F.CMP_FLIP[op]
        else:
            continue
        # x + lo_off  op  y + r_off   =>  x op y + k
        k = r_off - lo_off
        used.append(c)
        if op == 'Eq':
            nlo, nhi = k, k
        elif op == 'Gt':
            nlo, nhi = k + 1, None
        elif op == 'Ge':
            nlo, nhi = k, None
        elif op == 'Lt':
            nlo, nhi = None, k - 1
        elif op == 'Le':
            nlo, nhi = None, k
        else:
            continue
        if nlo is not None:
            lo = nlo if lo is None else max(lo, nlo)
        if nhi is not None:
            hi = nhi if hi is None else min(hi, nhi)
    return lo, hi, used


# ------------------------------------------------------------------------------------------------
# misc
# ------------------------------------------------------------------------------------------------

def calls_in_family(prog, bid, pred):
    """call sites matching pred in `bid` and every body nested in it"""
    out = []
    for i in prog.family(bid):
        b = prog.bodies.get(i)
        if b is None:
            continue
        out += b.calls(pred)
    return out


def fn_key(bid):
    """stable short key for a body id"""
    return bid


def ret_agg_blocks(body, adt_variant_rx):
    """blocks that assign the return place an aggregate whose 'Adt::Variant' matches"""
    rx = re.compile(adt_variant_rx)
    out = []
    for d in body.defs().get(0, []):
        if d[0] != 's':
            continue
        r = d[3]['r']
        if r['k'] == 'agg':
            desc = '%s::%s' % (r.get('adt'), r.get('var'))
            if rx.search(desc):
                out.append((d[1], d[3]))
    return out
