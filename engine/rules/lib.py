"""Rule templates shared by the property modules (GATE, MUST-PASS, PAIR, ATOMIC, WHO-WRITES, ...)."""
import json
import re
import facts as F

GUARD_TY = re.compile(r'(RwLockWriteGuard|RwLockReadGuard|MutexGuard|OwnedRwLockWriteGuard|OwnedRwLockReadGuard|'
                      r'OwnedMutexGuard|MappedMutexGuard|RwLockMappedWriteGuard)')
LOCK_ACQ = re.compile(r'(RwLock::<.*>::(write|read|try_write|try_read|write_owned|read_owned)|'
                      r'Mutex::<.*>::(lock|try_lock|lock_owned)|'
                      r'lock_api::.*::(write|read|lock))$')


# ------------------------------------------------------------------------------------------------
# lock guards
# ------------------------------------------------------------------------------------------------

class Guard:
    def __init__(self, body, local, acq, lock_expr, mode):
        self.body = body
        self.local = local          # the local that finally owns the guard
        self.acq = acq              # CallSite of the acquisition
        self.lock_expr = lock_expr  # Expr of the lock object (e.g. self.counters)
        self.mode = mode            # 'write' | 'read' | 'lock'
        self.drops = [bi for bi, t in body.terms() if t['k'] == 'drop' and t['p'] == [local]]
        # an explicit `drop(guard)` (or any call that takes the guard by value) releases it there
        moved = {local}
        for bi, si, st in body.stmts():
            r = st['r']
            if r['k'] == 'use' and r['o'].get('m') and r['o'].get('p') == [local] and len(st['d']) == 1 and body.local_name(st['d'][0]) is None:
                moved.add(st['d'][0])
        for bi, t in body.terms():
            if t['k'] == 'call' and any(a.get('m') and len(a.get('p', [])) == 1 and a['p'][0] in moved for a in t.get('args', [])):
                self.drops.append(t['t'] if t.get('t') is not None else bi)
        ds = body.defs().get(local, [])
        # the block in which the guard value comes into existence (after the await for async locks)
        self.def_bb = ds[0][1] if ds else acq.bb

    def lock_field(self):
        root, path = self.lock_expr.field_path()
        return path[-1] if path else None

    def lock_path(self):
        root, path = self.lock_expr.field_path()
        return root.show() + ''.join('.' + p for p in path)

    def __repr__(self):
        return 'Guard(_%d %s %s)' % (self.local, self.mode, self.lock_path())


def guards(body):
    """every lock guard held in a local of `body`: acquisition call -> owning local (through
    map_err / `?` / unwrap / await plumbing) -> drop points."""
    out = []
    for l, decl in enumerate(body.locals):
        if not GUARD_TY.search(decl['ty']):
            continue
        ty = decl['ty']
        # owning locals only: type is the guard itself (not Result<Guard,..>, not &Guard, not Poll<..>)
        if not re.match(r'^(std::sync::|tokio::sync::|parking_lot::|lock_api::)?[A-Za-z_:]*(%s)<' % GUARD_TY.pattern[1:-1], ty):
            continue
        if not any(t['k'] == 'drop' and t['p'] == [l] for _, t in body.terms()):
            # moved on (e.g. _22 -> _10): the final owner is the one that is dropped
            continue
        e = F.Expr.of_local(body, l, 30)
        acq = None
        for x in e.walk():
            if x.k == 'call' and LOCK_ACQ.search(x.a):
                acq = x
                break
        if acq is None:
            # async locks: guard comes out of poll(..) of the acquisition future
            acq = find_async_acq(body, l)
            if acq is None:
                continue
        mode = acq.a.rsplit('::', 1)[-1]
        mode = {'write': 'write', 'read': 'read', 'lock': 'lock', 'try_write': 'write', 'try_read': 'read',
                'try_lock': 'lock', 'write_owned': 'write', 'read_owned': 'read', 'lock_owned': 'lock'}.get(mode, mode)
        lock_expr = acq.b[0] if acq.b else F.Expr('unknown', 'lock')
        out.append(Guard(body, l, acq.c, lock_expr, mode))
    # a guard moved from one local into another (`val` -> `counters`): the final owner is the guard;
    # the scope-end drop of the moved-from local is a no-op
    moved_from = set()
    locs = set(g.local for g in out)
    for bi, si, s in body.stmts():
        r = s['r']
        if r['k'] == 'use' and 'p' in r['o'] and r['o'].get('m') and len(r['o']['p']) == 1 and len(s['d']) == 1:
            if r['o']['p'][0] in locs and s['d'][0] in locs:
                moved_from.add(r['o']['p'][0])
    return [g for g in out if g.local not in moved_from]


def awaited_call(body, l, depth=14):
    """if local l holds the output of `<call>(..).await`, return the Expr of the call producing the
    future. Shape: fut = call(..); into_future(fut) -> awaitee; loop { poll(Pin(&mut awaitee)) ; yield }
    ; l = (poll_result as Ready).0"""
    e = F.Expr.of_local(body, l, depth)
    return awaited_in_expr(body, e)


def awaited_in_expr(body, e):
    for x in e.walk():
        if x.k == 'call' and x.c is not None and x.b and is_poll_call(x):
            # x.b[0] = Pin::new_unchecked(&mut *(&mut awaitee))
            pin = x.b[0]
            for y in pin.walk():
                if y.k == 'local':
                    # awaitee local: single def = move of into_future result
                    aw = F.Expr.of_local(body, y.a, 10)
                    if aw.k == 'local':
                        # named `__awaitee` with one def: expand manually
                        ds = body.defs().get(y.a, [])
                        if len(ds) == 1:
                            d = ds[0]
                            if d[0] == 's':
                                aw = F.Expr.of_rvalue(body, d[3]['r'], 10)
                            else:
                                cs = F.CallSite(body, d[1], d[3])
                                aw = F.Expr('call', cs.callee, [F.Expr.of_operand(body, a, 10) for a in cs.args], cs)
                    return aw.strip()
    return None


def is_poll_call(x):
    """a call expr that is Future::poll (resolved polls show the coroutine body or a `poll` method)"""
    cs = x.c
    if cs is None:
        return False
    return cs.declared.endswith('Future::poll') or cs.declared.endswith('future::Future::poll')


def find_async_acq(body, l):
    aw = awaited_call(body, l)
    if aw is not None and aw.k == 'call' and LOCK_ACQ.search(aw.a):
        return aw
    return None


def reach_between(body, a, b, avoid=()):
    """is block b reachable from block a (a != b allowed to be equal => trivially true)?"""
    if a == b:
        return True
    return b in body.reachable_from([a], set(avoid))


def atomic_section(body, guard, a, b):
    """check `a` and act `b` (blocks) are inside one live range of `guard`: acquisition dominates
    both, and no drop of the guard and no await point lies on a path a -> b.
    returns (ok, reason)"""
    acq_bb = guard.def_bb
    if not (body.dominates(acq_bb, a) and body.dominates(acq_bb, b)):
        return False, 'lock acquisition at bb%d does not dominate both the check and the update' % acq_bb
    avoid = {acq_bb, a}
    from_a = body.reachable_from([a])
    for d in guard.drops:
        if d in from_a and reach_between(body, d, b, avoid - {d}):
            return False, 'the guard is dropped (bb%d, line %s) between the check and the update' % (d, body.line_of_block(d))
    for bi, t in body.terms():
        if t['k'] == 'yield' and bi in from_a and reach_between(body, bi, b, avoid - {bi}):
            return False, 'an await point (line %s) lies between the check and the update' % t.get('ln')
    return True, 'check and update both inside the live range of %s' % guard


# ------------------------------------------------------------------------------------------------
# WHO-WRITES
# ------------------------------------------------------------------------------------------------

def field_writes(prog, adt, field):
    """every statement / call destination / &mut borrow whose place goes through `adt::field`.
    yields (body, bb, kind, thing) with kind in assign | call-dest | mut-borrow | aggregate"""
    tag = '.%s::%s' % (adt, field)
    out = []
    cands = {}
    for b in prog.bodies.containing(json.dumps(tag)):
        cands[b.id] = b
    for b in prog.bodies.containing(json.dumps(adt), json.dumps(field)):
        cands[b.id] = b
    for b in cands.values():
        for bi, si, s in b.stmts():
            d = s['d']
            if tag in d[1:]:
                out.append((b, bi, 'assign', s))
            r = s['r']
            if r['k'] == 'ref' and r['m'] == 'mut' and tag in r['p'][1:]:
                # a &mut to (a prefix ending in) the field itself, not to something beyond a later Deref
                idx = r['p'].index(tag)
                rest = r['p'][idx + 1:]
                if '*' not in rest:
                    out.append((b, bi, 'mut-borrow', s))
            if r['k'] == 'agg' and r.get('adt') == adt and field in (r.get('fields') or []):
                out.append((b, bi, 'aggregate', s))
        for bi, t in b.terms():
            if t['k'] == 'call' and tag in t['d'][1:]:
                out.append((b, bi, 'call-dest', t))
    return out


def agg_field_operand(stmt, field):
    r = stmt['r']
    fs = r.get('fields') or []
    if field in fs and len(fs) == len(r['ops']):
        return r['ops'][fs.index(field)]
    return None


# ------------------------------------------------------------------------------------------------
# linear constraints x ~ y + c  (used for "accepted implies seq == last + 1" style gates)
# ------------------------------------------------------------------------------------------------

def linear(e):
    """e as (base_text, offset) if it has the shape base (+|-) const, else (text, 0)"""
    e = e.strip()
    if e.k == 'bin' and e.a in ('Add', 'Sub'):
        cv = e.c.const_value()
        if cv is not None and not isinstance(cv, bool):
            bt, off = linear(e.b)
            return bt, off + (cv if e.a == 'Add' else -cv)
        cv = e.b.const_value()
        if cv is not None and e.a == 'Add' and not isinstance(cv, bool):
            bt, off = linear(e.c)
            return bt, off + cv
    if e.k == 'call' and re.search(r'::(saturating_add|wrapping_add|checked_add)$', e.a) and len(e.b) == 2:
        cv = e.b[1].const_value()
        if cv is not None:
            bt, off = linear(e.b[0])
            return bt, off + cv
    return e.show(), 0


def bounds_from_conds(conds, xpred, ypred):
    """from comparison facts between an expression matching xpred and one matching ypred, derive
    (lo, hi) such that  y + lo <= x <= y + hi  (None = unbounded)."""
    lo = hi = None
    used = []
    for c in conds:
        if c.kind != 'cmp':
            continue
        lt, lo_off = linear(c.lhs)
        rt, r_off = linear(c.rhs)
        op = c.op
        if xpred(lt) and ypred(rt):
            pass
        elif xpred(rt) and ypred(lt):
            lt, rt, lo_off, r_off = rt, lt, r_off, lo_off
            op = F.CMP_FLIP[op]
        else:
            continue
        # x + lo_off  op  y + r_off   =>  x op y + k
        k = r_off - lo_off
        used.append(c)
        if op == 'Eq':
            nlo, nhi = k, k
        elif op == 'Gt':
            nlo, nhi = k + 1, None
        elif op == 'Ge':
            nlo, nhi = k, None
        elif op == 'Lt':
            nlo, nhi = None, k - 1
        elif op == 'Le':
            nlo, nhi = None, k
        else:
            continue
        if nlo is not None:
            lo = nlo if lo is None else max(lo, nlo)
        if nhi is not None:
            hi = nhi if hi is None else min(hi, nhi)
    return lo, hi, used


# ------------------------------------------------------------------------------------------------
# misc
# ------------------------------------------------------------------------------------------------

def calls_in_family(prog, bid, pred):
    """call sites matching pred in `bid` and every body nested in it"""
    out = []
    for i in prog.family(bid):
        b = prog.bodies.get(i)
        if b is None:
            continue
        out += b.calls(pred)
    return out


def fn_key(bid):
    """stable short key for a body id"""
    return bid


def ret_agg_blocks(body, adt_variant_rx):
    """blocks that assign the return place an aggregate whose 'Adt::Variant' matches"""
    rx = re.compile(adt_variant_rx)
    out = []
    for d in body.defs().get(0, []):
        if d[0] != 's':
            continue
        r = d[3]['r']
        if r['k'] == 'agg':
            desc = '%s::%s' % (r.get('adt'), r.get('var'))
            if rx.search(desc):
                out.append((d[1], d[3]))
    return out


# ------------------------------------------------------------------------------------------------
# format templates (core::fmt::Arguments::new(template, args) in this toolchain)
# ------------------------------------------------------------------------------------------------

def _unescape_bytes(lit):
    """b"\\x04wal.\\xc0" (as printed by rustc) -> bytes"""
    m = re.match(r'^(?:const )?b"(.*)"$', lit, re.S)
    if not m:
        return None
    s = m.group(1)
    out = bytearray()
    i = 0
    while i < len(s):
        c = s[i]
        if c == '\\':
            n = s[i + 1]
            if n == 'x':
                out.append(int(s[i + 2:i + 4], 16))
                i += 4
                continue
            out += {'n': b'\n', 't': b'\t', 'r': b'\r', '0': b'\0', '\\': b'\\', '"': b'"', "'": b"'"}.get(n, n.encode())
            i += 2
            continue
        out += c.encode('utf-8')
        i += 1
    return bytes(out)


def fmt_template(lit):
    """decode a fmt::Arguments template into [('lit', str) | ('arg', index)]"""
    b = _unescape_bytes(lit)
    if b is None:
        return None
    out = []
    i = 0
    argi = 0
    while i < len(b):
        n = b[i]
        i += 1
        if n == 0:
            break
        if n < 0x80:
            out.append(('lit', b[i:i + n].decode('utf-8', 'replace')))
            i += n
        elif n == 0x80:
            ln = b[i] | (b[i + 1] << 8)
            i += 2
            out.append(('lit', b[i:i + ln].decode('utf-8', 'replace')))
            i += ln
        else:
            if n & 1:
                i += 4
            if n & 2:
                i += 2
            if n & 4:
                i += 2
            if n & 8:
                argi = b[i] | (b[i + 1] << 8)
                i += 2
            out.append(('arg', argi))
            argi += 1
    return out


def format_calls(body):
    """every fmt::Arguments::new in the body: (CallSite, pieces, arg exprs)"""
    out = []
    for cs in body.calls(r'fmt::Arguments::<.*>::new$|fmt::Arguments::new$|Arguments::<.*>::new_const|Arguments::<.*>::from_str'):
        if not cs.args:
            continue
        t = body.expr(cs.args[0]).strip()
        lit = t.a if t.k == 'const' else None
        pieces = fmt_template(lit) if lit else None
        if pieces is None and t.k == 'const' and isinstance(t.a, str) and t.a.startswith('"'):
            pieces = [('lit', t.a.strip('"'))]
        args = []
        if len(cs.args) > 1:
            a = body.expr(cs.args[1]).strip()
            if a.k == 'agg':
                for x in a.b:
                    x = x.strip()
                    if x.k == 'call' and x.b:
                        args.append(x.b[0].strip())
                    else:
                        args.append(x)
        out.append((cs, pieces, args))
    return out


def _tuple_proj(e):
    """`(a, b).1` -> b (format_args! with several arguments binds them in a tuple first)"""
    x = e.strip()
    if x.k == 'field' and isinstance(x.b, str) and x.b.startswith('::') and x.b[2:].isdigit():
        base = x.a.strip()
        if base.k == 'agg' and isinstance(base.b, list) and int(x.b[2:]) < len(base.b):
            return base.b[int(x.b[2:])].strip()
    return e


def string_template(prog, body, e):
    """what literal text an expression of type String / &str starts with and consists of:
    returns list of ('lit', s) | ('arg', expr) or None when it cannot be determined"""
    e = e.strip()
    if e.k == 'const':
        if e.d and e.d in prog.consts and 's' in prog.consts[e.d]:
            return [('lit', prog.consts[e.d]['s'])]
        if isinstance(e.a, str) and e.a.startswith('"') and e.a.endswith('"'):
            return [('lit', e.a[1:-1])]
        return None
    if e.k == 'call':
        if re.search(r'(fmt::format|hint::must_use|fmt::format::format_inner)$', e.a) and e.b:
            return string_template(prog, body, e.b[0])
        if re.search(r'fmt::Arguments::<.*>::new$|fmt::Arguments::new$', e.a):
            t = e.b[0].strip()
            pieces = fmt_template(t.a) if t.k == 'const' else None
            if pieces is None:
                return None
            args = []
            if len(e.b) > 1:
                a = e.b[1].strip()
                if a.k == 'agg':
                    for x in a.b:
                        x = x.strip()
                        args.append(x.b[0].strip() if (x.k == 'call' and x.b) else x)
            out = []
            for kind, v in pieces:
                if kind == 'lit':
                    out.append(('lit', v))
                else:
                    ax = args[v] if v < len(args) else None
                    ax = _tuple_proj(ax) if ax is not None else None
                    sub = string_template(prog, body, ax) if ax is not None else None
                    if sub and all(k == 'lit' for k, _ in sub):
                        out += sub
                    else:
                        out.append(('arg', ax))
            # merge literals
            merged = []
            for k, v in out:
                if k == 'lit' and merged and merged[-1][0] == 'lit':
                    merged[-1] = ('lit', merged[-1][1] + v)
                else:
                    merged.append((k, v))
            return merged
        if F.TRANSPARENT.match(e.a) and e.b:
            return string_template(prog, body, e.b[0])
    if e.k == 'field' and e.a.k == 'local':
        # (&a, &b) tuple of format args: _21.0 -> the element
        pass
    return None


# ------------------------------------------------------------------------------------------------
# must-pass / ordering
# ------------------------------------------------------------------------------------------------

def must_pass(body, start_nodes, pass_nodes, end_nodes):
    """True iff every path from any start node to any end node goes through a pass node.
    returns (ok, witness_end) — witness = an end node reachable while avoiding pass nodes"""
    if getattr(body, 'inlined', None):
        # spliced helpers share one continuation per call site: keep their Ok / Err returns apart
        reach = body.reachable_tracking(list(start_nodes), set(pass_nodes))
    else:
        reach = body.reachable_from(list(start_nodes), set(pass_nodes))
    for e in end_nodes:
        if e in reach:
            return False, e
    return True, None


def rpo(body):
    succ, _, _ = body.cfg()
    seen = set([0])
    post = []
    stack = [(0, iter(succ[0]))]
    while stack:
        node, it = stack[-1]
        adv = False
        for y in it:
            if y not in seen:
                seen.add(y)
                stack.append((y, iter(succ[y])))
                adv = True
                break
        if not adv:
            post.append(node)
            stack.pop()
    order = post[::-1]
    return {n: i for i, n in enumerate(order)}


def source_loops(body):
    """natural loops written in the source (`loop`, `while`, `for`): the poll loops that `.await`
    desugars to are left out"""
    out = []
    n = len(body.blocks)
    for h, nodes in natural_loops(body):
        hb = h if h < n else body.cfg()[2][h][0]
        t = body.blocks[hb]['t']
        if t.get('dk') == 'Await':
            continue
        out.append((h, nodes))
    return out


def natural_loops(body):
    """list of (header, body_nodes, back_edge_sources) using dominators on the edge-split CFG"""
    succ, pred, _ = body.cfg()
    loops = {}
    dom = body.dominators()
    for a in dom:
        for h in succ[a]:
            if h in dom and body.dominates(h, a):
                # back edge a -> h
                nodes = loops.setdefault(h, set([h]))
                stack = [a]
                while stack:
                    x = stack.pop()
                    if x not in nodes:
                        nodes.add(x)
                        stack += [p for p in pred[x] if p in dom]
    return [(h, ns) for h, ns in loops.items()]


def loop_exits(body, nodes):
    succ, _, _ = body.cfg()
    out = []
    for n in nodes:
        for s in succ[n]:
            if s not in nodes:
                out.append((n, s))
    return out


def operand_ty(body, op):
    if 'p' in op and len(op['p']) == 1:
        return body.local_ty(op['p'][0])
    if 'p' in op and len(op['p']) == 2 and op['p'][1] == '*':
        t = body.local_ty(op['p'][0])
        m = re.match(r"^&(?:'[a-z_]+ )?(?:mut )?(.*)$", t)
        if m:
            return m.group(1)
    if 'ty' in op:
        return op['ty']
    return None


def success_returns(body):
    """blocks assigning the return place a success value: `_0 = Ok(..)/Some(..)` directly, or through plain moves, or — in an
    inlined body — through the return plumbing of a spliced helper (`poll = Ready(r); _0 = (poll as Ready).0`, `dest = r`).
    returns [(bb of the statement holding the Ok/Some aggregate (the _0 store for direct ones), that statement)]"""
    out = []
    seen = set()

    def from_local(l, store_bb, depth):
        if depth <= 0 or (l, store_bb) in seen:
            return
        seen.add((l, store_bb))
        for d in body.defs().get(l, []):
            if d[0] != 's':
                continue
            r = d[3]['r']
            if r['k'] == 'agg' and r.get('var') in ('Ok', 'Some'):
                out.append((store_bb if store_bb is not None else d[1], d[3]))
            elif r['k'] == 'agg' and r.get('var') == 'Ready' and r.get('ops') and 'p' in r['ops'][0]:
                from_local(r['ops'][0]['p'][0], None, depth - 1)
            elif r['k'] == 'use' and 'p' in r['o']:
                pl = r['o']['p']
                if len(pl) == 1 or all(isinstance(p, str) and (p.startswith('@Ready') or p.endswith('::0') or p == '*') for p in pl[1:]):
                    from_local(pl[0], None if getattr(body, 'inlined', None) else store_bb, depth - 1)

    for d in body.defs().get(0, []):
        if d[0] != 's':
            continue
        r = d[3]['r']
        if r['k'] == 'agg' and r.get('var') in ('Ok', 'Some'):
            out.append((d[1], d[3]))
        elif r['k'] == 'use' and 'p' in r['o']:
            pl = r['o']['p']
            if len(pl) == 1:
                sd = body.single_def(pl[0])
                if sd is not None and sd[0] == 's' and sd[3]['r']['k'] == 'agg' and sd[3]['r'].get('var') in ('Ok', 'Some'):
                    out.append((d[1], sd[3]))
                    continue
            if getattr(body, 'inlined', None) and (len(pl) == 1 or all(isinstance(p, str) and (p.startswith('@Ready') or p.endswith('::0') or p == '*') for p in pl[1:])):
                from_local(pl[0], None, 6)
    # de-duplicate
    uniq = []
    keys = set()
    for bb, st in out:
        k = (bb, id(st))
        if k not in keys:
            keys.add(k)
            uniq.append((bb, st))
    return uniq



# ------------------------------------------------------------------------------------------------
# callee summaries: "every success return of G has passed P"
# ------------------------------------------------------------------------------------------------

class MustPassSummary:
    """is_p(callee id): the callee (an in-crate fn; for an async fn its coroutine) executes a site
    matching `direct` — or a call to another such callee — with success, on every path to each of
    its success returns. Depth-bounded, recursion cut."""

    def __init__(self, prog, direct, depth=3):
        self.prog = prog
        self.direct = direct
        self.depth = depth
        self.memo = {}

    def body_for(self, callee):
        prog = self.prog
        if callee not in prog.bodies:
            return None
        b = prog.bodies[callee]
        if b.is_async:
            c = callee + '::{closure#0}'
            if c in prog.bodies:
                return prog.bodies[c]
        return b

    def is_p_call(self, cs, depth=None):
        depth = self.depth if depth is None else depth
        if self.direct(cs):
            return True
        if depth <= 0:
            return False
        callee = cs.callee
        # a poll of `G::{closure#0}` is the execution of async fn G
        if callee.endswith('::{closure#0}') and callee[:-len('::{closure#0}')] in self.prog.bodies:
            base = callee[:-len('::{closure#0}')]
            if self.prog.bodies[base].is_async:
                return self.fn_is_p(base, depth - 1)
            return False
        if callee in self.prog.bodies and not self.prog.bodies[callee].is_async:
            return self.fn_is_p(callee, depth - 1)
        return False

    def fn_is_p(self, fid, depth):
        key = (fid, depth)
        if key in self.memo:
            return self.memo[key]
        self.memo[key] = False
        b = self.body_for(fid)
        res = False
        if b is not None:
            sites = [cs for cs in b.calls() if self.is_p_call(cs, depth)]
            succ = [bb for bb, _ in success_returns(b)]
            ends = succ if succ else b.return_blocks()
            if sites and ends:
                ok_all = True
                for e in ends:
                    dominated = False
                    for cs in sites:
                        te = F.try_edges(b, cs)
                        node = te[0] if (te and te[0] is not None) else (cs.target if not succ else None)
                        if node is not None and b.dominates(node, e):
                            dominated = True
                            break
                    if not dominated:
                        ok_all = False
                        break
                res = ok_all
        self.memo[key] = res
        return res

    def sites(self, body):
        return [cs for cs in body.calls() if self.is_p_call(cs)]


# ------------------------------------------------------------------------------------------------
# COVER / FRAMING
# ------------------------------------------------------------------------------------------------

def fields_read(prog, body, adt, depth=2, _seen=None):
    """names of `adt` fields read (appearing in an rvalue / call argument place) in `body`, and in
    in-crate callees that are handed the same object (first argument of the same type), depth-bounded.
    returns {field: [(body, line)]}"""
    out = {}
    _seen = _seen if _seen is not None else set()
    if body.id in _seen:
        return out
    _seen.add(body.id)
    tag = '.%s::' % adt

    def scan_place(pl, ln):
        for p in pl[1:]:
            if isinstance(p, str) and p.startswith(tag):
                out.setdefault(p[len(tag):], []).append((body, ln))

    for bi, si, s in body.stmts():
        r = s['r']
        for o in F._rvalue_operands(r):
            if 'p' in o:
                scan_place(o['p'], s.get('ln'))
    for bi, t in body.terms():
        if t['k'] == 'call':
            for a in t['args']:
                if 'p' in a:
                    scan_place(a['p'], t.get('ln'))
        elif t['k'] == 'switch' and 'p' in t['d']:
            scan_place(t['d']['p'], t.get('ln'))
    if depth > 0:
        for cs in body.calls():
            if not cs.local or cs.callee not in prog.bodies:
                continue
            cb = prog.bodies[cs.callee]
            if cb.argc >= 1 and adt in cb.local_ty(1):
                for k, v in fields_read(prog, cb, adt, depth - 1, _seen).items():
                    out.setdefault(k, []).extend(v)
        for cid in prog.children(body.id):
            for k, v in fields_read(prog, prog.bodies[cid], adt, depth - 1, _seen).items():
                out.setdefault(k, []).extend(v)
    return out


def classify_bytes_operand(body, op):
    """'len' | 'fixed' | 'var' for an operand appended to a MAC / hash / signable byte string"""
    e = body.expr(op)
    s = e.show()
    if re.search(r'::len\(', s):
        return 'len'
    if re.search(r'to_(le|be|ne)_bytes', s):
        return 'fixed'
    if any(x.k == 'cast' and str(x.a).startswith('PointerCoercion(Unsize') for x in e.walk()):
        return 'fixed'      # &[u8; N] -> &[u8]
    t = operand_ty(body, op)
    if t and re.match(r'^&(mut )?\[u8; \d+\]$', t):
        return 'fixed'
    if t in ('u8', 'u16', 'u32', 'u64', 'bool'):
        return 'fixed'
    return 'var'


def framing(body, calls, argidx=1):
    """order the append calls, classify operands; returns (seq, adjacent_var_pairs, unmarked_optional)"""
    order = rpo(body)
    calls = sorted(calls, key=lambda c: order.get(c.bb, 10**6))
    seq = []
    for u in calls:
        kind = classify_bytes_operand(body, u.args[argidx])
        conds = [c for c in F.dominating_conds(body, u.bb)
                 if c.kind == 'disc' and not re.search(r'Try>::branch|Try::branch', c.expr.show())]
        seq.append((u, kind, bool(conds)))
    bad = []
    for i in range(len(seq) - 1):
        if seq[i][1] == 'var' and seq[i + 1][1] == 'var':
            bad.append((seq[i][0], seq[i + 1][0]))
    presence = []
    for i, (u, k, opt) in enumerate(seq):
        if opt and k == 'var':
            prev = seq[i - 1] if i > 0 else None
            if not (prev is not None and prev[1] == 'len'):
                presence.append(u)
    return seq, bad, presence


def rejecting_conds(body):
    """conditions of switch edges from which no success return is reachable (i.e. guards that
    reject): list of Cond"""
    succ = set(bb for bb, _ in success_returns(body))
    out = []
    tracking = bool(getattr(body, 'inlined', None))
    for n, e in body.edge_nodes().items():
        reach = body.reachable_tracking([n]) if tracking else body.reachable_from([n])
        if not (reach & succ):
            out.append(F.edge_cond(body, e))
    return out


def success_conds(body, node, callee_rx):
    """conditions dominating `node` which say that a call matching callee_rx returned Ok / Some /
    true (through `?`, `if let Err(..) = .. {continue}`, `if !f() {return}` ...)."""
    rx = re.compile(callee_rx) if isinstance(callee_rx, str) else callee_rx
    out = []
    for c in F.dominating_conds(body, node):
        if c.kind == 'disc':
            # the Ready arm of an await loop says nothing about Ok/Err of the awaited result
            top = c.expr
            while top.k in ('let', 'ref', 'deref'):
                top = top.c if top.k == 'let' else top.a
            if top.k == 'call' and top.c is not None and top.c.declared.endswith('Future::poll'):
                continue
            good = c.variant_is(0)
            # for Option, Some is 1: `if let Some(x) = f()`
            e = c.expr
            m = e.mentions_call(rx)
            if m is None:
                continue
            is_option = m.c is not None and m.c.dest and body.local_ty(m.c.dest[0]).startswith('std::option::Option')
            through_try = e.mentions_call(r'Try>::branch$|Try::branch$') is not None
            if is_option and not through_try:
                good = c.variant_is(1)
            if good:
                out.append(c)
        elif c.kind == 'bool' and c.truth:
            if c.expr.mentions_call(rx) is not None and not _negated_inside(c.expr, rx):
                out.append(c)
    return out


def _negated_inside(e, rx):
    for x in e.walk():
        if x.k == 'un' and x.a == 'Not' and x.b.mentions_call(rx) is not None:
            return True
    return False


def cmp_is(c, xpred, ops, ypred):
    """does comparison fact c say  X op Y  (op in ops) for some X matching xpred, Y matching ypred —
    in either operand order? preds take the Expr."""
    if c.kind != 'cmp':
        return False
    if isinstance(ops, str):
        ops = (ops,)
    if xpred(c.lhs) and ypred(c.rhs) and c.op in ops:
        return True
    if xpred(c.rhs) and ypred(c.lhs) and F.CMP_FLIP[c.op] in ops:
        return True
    return False


def ends(suffix):
    return lambda e: e.strip().show().endswith(suffix)


def has(*subs):
    return lambda e: all(s in e.show() for s in subs)


# ------------------------------------------------------------------------------------------------
# PANIC-SITES
# ------------------------------------------------------------------------------------------------

PANIC_CALL = re.compile(
    r'(Option::<.*>::(unwrap|expect)|Result::<.*>::(unwrap|expect|unwrap_err|expect_err)|'
    r'core::panicking::|std::rt::begin_panic|core::option::expect_failed|core::result::unwrap_failed|'
    r'(core|std)::ops::Index<.*>>::index|(core|std)::ops::IndexMut<.*>>::index_mut|'
    r'(core|std)::ops::Index::index|(core|std)::ops::IndexMut::index_mut|'
    r'<impl \[T\]>::copy_from_slice|<impl \[T\]>::clone_from_slice|<impl \[T\]>::split_at(_mut)?|'
    r'Vec::<.*>::(remove|swap_remove|insert|split_off|drain)|String::(remove|insert|insert_str|split_off|drain)|'
    r'str>::split_at|VecDeque::<.*>::(remove)|RefCell::<.*>::(borrow|borrow_mut)|'
    r'Duration::(from_secs_f64|from_secs_f32)|Instant::duration_since|SystemTime::duration_since'
    r')$|^core::panicking::')
PANIC_EXACT = re.compile(r'(::unwrap$|::expect$|core::panicking::|Index.*>::index(_mut)?$|::copy_from_slice$|Vec::<.*>::remove$)')


# std time arithmetic through the operator traits panics on overflow ("overflow when adding duration to instant")
TIME_ARITH = re.compile(r'<(std|core|tokio)::time::(SystemTime|Instant|Duration) as (std|core)::ops::(Add|Sub|Mul|AddAssign|SubAssign|MulAssign)(<.*>)?>::\w+$'
                        r'|time::Duration::from_secs_f(32|64)$|time::Duration::(mul_f32|mul_f64|div_f32|div_f64)$')


def panic_sites(body, include_overflow=False, include_expansion=True):
    """potential panic sites of a body: [(kind, bb, line, text, expr-of-interest)]"""
    out = []
    for cs in body.calls():
        name = cs.callee
        if re.search(r'(Option::<.*>::(unwrap|expect)$|Result::<.*>::(unwrap|expect|unwrap_err|expect_err)$)', name):
            out.append(('unwrap', cs.bb, cs.ln, name, cs))
        elif re.search(r'^core::panicking::|^std::rt::begin_panic|panic_fmt$|panic_display|unreachable_display', name):
            out.append(('panic', cs.bb, cs.ln, name, cs))
        elif re.search(r'ops::Index<.*>>::index$|ops::IndexMut<.*>>::index_mut$|ops::Index::index$|ops::IndexMut::index_mut$|SliceIndex<.*>>::index(_mut)?$', name):
            out.append(('index', cs.bb, cs.ln, name, cs))
        elif re.search(r'<impl \[T\]>::(copy_from_slice|clone_from_slice|split_at|split_at_mut)$|Vec::<.*>::(remove|swap_remove|split_off)$|'
                       r'String::(remove|split_off|insert)$|str>::split_at$|<impl str>::split_at$', name):
            out.append(('slice-op', cs.bb, cs.ln, name, cs))
        elif TIME_ARITH.search(name):
            out.append(('time-arith', cs.bb, cs.ln, name, cs))
    for bi, t in body.terms():
        if t['k'] == 'assert':
            m = t['m']
            if m in ('BoundsCheck',):
                out.append(('bounds', bi, t.get('ln'), t['mm'], t))
            elif m in ('DivisionByZero', 'RemainderByZero'):
                out.append(('divzero', bi, t.get('ln'), t['mm'], t))
            elif include_overflow and m in ('Overflow', 'OverflowNeg'):
                out.append(('overflow', bi, t.get('ln'), t['mm'], t))
    return out


ITER_NEXT = re.compile(r'(Iterator>::next|Iterator::next|impl (std|core)::iter::Iterator for .*>::next|::next)$')


def mentions_next(e):
    """does the expression contain a call of Iterator::next (by declared trait method)?"""
    for x in e.walk():
        if x.k == 'call' and x.c is not None and x.c.declared.endswith('iter::Iterator::next'):
            return x
    return None


def calls_decl(body, *suffixes):
    """call sites whose *declared* callee (trait method before resolution) ends with a suffix"""
    return [c for c in body.calls() if any(c.declared.endswith(x) for x in suffixes)]


# ------------------------------------------------------------------------------------------------
# EXIT-GUARD for iterative lookups
# ------------------------------------------------------------------------------------------------

def main_loop_with(body, call_rx, depth=3):
    """the outermost natural loop whose body contains a call matching call_rx — directly, or inside
    a closure / async block constructed in the loop (e.g. `batch.iter().map(|n| async move {send(..)})`)"""
    rx = re.compile(call_rx)
    prog = body.prog
    hot = set()
    for c in body.calls():
        if rx.search(c.callee):
            hot.add(c.bb)
    for bi, si, s in body.stmts():
        r = s['r']
        if r['k'] == 'agg' and r.get('def') and r['def'] in prog.bodies:
            for cid in prog.family(r['def']):
                cb = prog.bodies.get(cid)
                if cb is not None and any(rx.search(c.callee) for c in cb.calls()):
                    hot.add(bi)
    best = None
    for h, nodes in source_loops(body):
        if hot & nodes:
            if best is None or len(nodes) > len(best[1]):
                best = (h, nodes)
    return best


def classify_exits(body, loop, sink_blocks, queue_names, queue_locals=None, batch_locals=None, result_locals=None, keyed=False):
    """for each exit edge of `loop` from which a sink block is reachable, say why the loop may stop:
    returns [(kind, cond, line)], kind in
      queue-empty | batch-empty | budget | stagnation | other
    The containers are recognised by alias class when given (queue_locals / batch_locals / result_locals), by debug name
    otherwise."""
    h, nodes = loop
    out = []
    edges = body.edge_nodes()
    for (a, b) in loop_exits(body, nodes):
        reach = body.reachable_from([b])
        if not (reach & set(sink_blocks)):
            continue
        c = None
        node = b if b in edges else (a if a in edges else None)
        if node is not None:
            c = F.edge_cond(body, edges[node])
        else:
            # exit through a plain goto (break at the end of an if-arm): the innermost dominating switch edge
            chain = body.dominating_edges(a)
            for n2, e2 in chain:
                if n2 in nodes or e2[0] in nodes:
                    c = F.edge_cond(body, e2)
                    break
        ln = body.line_of_block(F.block_of_node(body, a))
        kind = 'other'
        if c is not None:
            t = c.show()
            if c.kind == 'disc' and c.variant_is(0) and mentions_next(c.expr) is not None and re.search(r'Range', t):
                kind = 'budget'
            elif c.kind == 'bool' and c.truth and re.search(r'::is_empty\(', t):
                inner = c.expr.mentions_call(r'::is_empty$')
                arg = inner.b[0] if inner is not None and inner.b else None
                names = [x.b for x in arg.walk() if x.k in ('let', 'local') and x.b] if arg is not None else []
                locs = (expr_keys(body, arg) if keyed else expr_locals(arg)) if arg is not None else set()
                if (queue_locals is not None and locs & queue_locals) or (queue_locals is None and any(nm in queue_names for nm in names)):
                    kind = 'queue-empty'
                elif (batch_locals is not None and locs & batch_locals) or (batch_locals is None and any('batch' in nm for nm in names)):
                    kind = 'batch-empty'
            elif c.kind == 'bool' and c.truth and re.search(r'PartialEq.*::eq\(', t):
                if result_locals is not None:
                    sl = set()
                    for l in expr_locals(c.expr):
                        sl |= body.backward_locals([l], limit=2500)
                    rl = set(x[0] if isinstance(x, tuple) else x for x in result_locals)
                    if sl & rl or (keyed and any(_rep(body, l) in rl for l in sl)):
                        kind = 'stagnation'
                elif 'snapshot' in _names(c.expr):
                    kind = 'stagnation'
        out.append((kind, c, ln))
    return out


def _names(e):
    return ' '.join(x.b for x in e.walk() if x.k in ('let', 'local') and x.b)


def is_poll_disc(c):
    """is this discriminant fact about the Poll value of an await loop (Ready/Pending)?"""
    if c.kind != 'disc':
        return False
    top = c.expr
    while top.k in ('let', 'ref', 'deref'):
        top = top.c if top.k == 'let' else top.a
    return top.k == 'call' and top.c is not None and top.c.declared.endswith('Future::poll')


def calls_decl_expr(e, *suffixes):
    """does the expression contain a call whose declared callee ends with one of the suffixes?"""
    for x in e.walk():
        if x.k == 'call' and x.c is not None and any(x.c.declared.endswith(s) for s in suffixes):
            return True
    return False


def every_iteration_passes(body, target_bb, extra_pass=()):
    """In the innermost natural loop around block `target_bb`: does every iteration that received an element (the Some
    edge of the loop's `next()`) pass through target_bb (or a node in extra_pass) before the next iteration starts?
    returns (ok, witness_line, reason). Fail closed (ok False) when the loop shape is not recognised."""
    loops = [(h, ns) for h, ns in natural_loops(body) if target_bb in ns]
    if not loops:
        return False, None, 'the site is not inside a loop'
    h, ns = min(loops, key=lambda x: len(x[1]))
    inner = [ns2 for _h2, ns2 in natural_loops(body) if len(ns2) < len(ns)]
    starts = []
    for nnode, e in body.edge_nodes().items():
        if e[0] not in ns or any(e[0] in ns2 for ns2 in inner):
            continue
        c = F.edge_cond(body, e)
        if c.kind == 'disc' and c.variant_is(1) and mentions_next(c.expr) is not None:
            starts.append(nnode)
    if not starts:
        return False, None, 'cannot find the element-yielding edge of the loop (fail closed)'
    reach = body.reachable_from(starts, set([target_bb]) | set(extra_pass))
    back = [p for p in body.cfg()[1][h] if p in ns and p in reach]
    if not back:
        return True, None, 'every element of the loop reaches the site'
    n = len(body.blocks)
    wb = back[0] if back[0] < n else body.cfg()[2][back[0]][0]
    return False, body.line_of_block(wb), 'an element can be skipped (next iteration reached from line %s without passing the site)' % body.line_of_block(wb)


# ------------------------------------------------------------------------------------------------
# container identity without names: alias classes of locals
# ------------------------------------------------------------------------------------------------

ALIAS_CALL = re.compile(r'(ops::Deref>::deref|ops::DerefMut>::deref_mut|ops::Deref::deref|ops::DerefMut::deref_mut|convert::AsMut<.*>>::as_mut|'
                        r'convert::AsRef<.*>>::as_ref|borrow::BorrowMut<.*>>::borrow_mut|borrow::Borrow<.*>>::borrow|Vec::<.*>::as_mut_slice|'
                        r'Vec::<.*>::as_slice|IntoIterator>::into_iter|Vec::<.*>::iter|Vec::<.*>::iter_mut|Vec::<.*>::drain|VecDeque::<.*>::iter|'
                        r'mem::take|Option::<.*>::unwrap_or_default)$')


def alias_classes(body):
    """union-find over locals: x ~ y when x is a move / copy / reference / reborrow of y (no field projection), the result of a
    transparent call on y (deref, as_mut, iter ..), or — in an inlined body — the parameter / return plumbing of a spliced
    helper. Two locals in one class denote the same container as far as the rules are concerned."""
    if getattr(body, '_alias', None) is not None:
        return body._alias
    parent = {}

    def find(x):
        while parent.get(x, x) != x:
            parent[x] = parent.get(parent[x], parent[x])
            x = parent[x]
        return x

    def union(a, b):
        ra, rb = find(a), find(b)
        if ra != rb:
            parent[ra] = rb

    def plain(pl):
        return all(p == '*' for p in pl[1:])
    for bi, si, s in body.stmts():
        d = s['d']
        r = s['r']
        if not plain(d):
            continue
        src = None
        if r['k'] in ('use', 'cast') and 'p' in r.get('o', {}):
            src = r['o']['p']
        elif r['k'] == 'ref':
            src = r['p']
        if src is not None and plain(src):
            union(d[0], src[0])
    for cs in body.calls():
        if cs.dest and plain(cs.dest) and cs.args and 'p' in cs.args[0] and plain(cs.args[0]['p']) and ALIAS_CALL.search(cs.callee):
            union(cs.dest[0], cs.args[0]['p'][0])
    classes = {}
    for l in range(len(body.locals)):
        classes.setdefault(find(l), set()).add(l)
    out = {}
    for root, ls in classes.items():
        for l in ls:
            out[l] = ls
    body._alias = out
    return out


def alias_of(body, seeds):
    """the union of the alias classes of the given locals"""
    ac = alias_classes(body)
    out = set()
    for l in seeds:
        out |= ac.get(l, {l})
    return out


def expr_locals(e):
    return set(x.a for x in e.walk() if x.k in ('let', 'local', 'param') and isinstance(x.a, int))


def touches(body, e, cls):
    """does expression e mention a local of the alias class `cls`?"""
    return bool(expr_locals(e) & cls)


def operand_root(op):
    return op['p'][0] if isinstance(op, dict) and 'p' in op else None


# ------------------------------------------------------------------------------------------------
# what is known to hold at a program point, through the usual Option / iterator predicate idioms
# ------------------------------------------------------------------------------------------------

PRED_TRUE_SOME = re.compile(r'Option::<.*>::(filter|take_if)$')                       # Some(..) => closure returned true
PRED_TRUE_BOOL = re.compile(r'Option::<.*>::(is_some_and)$|Result::<.*>::(is_ok_and)$|Iterator>?::(any)$|Iterator::any$')  # true => closure true (for some element)


def closure_results(prog, closure_id):
    """[(closure body, Expr | Cond)] — what the bool-returning closure returns (every definition of its _0)"""
    out = []
    cb = prog.bodies.get(closure_id)
    if cb is None:
        return out
    for d in cb.defs().get(0, []):
        if d[0] == 's':
            e = F.Expr.of_rvalue(cb, d[3]['r'], 20)
        else:
            cs = F.CallSite(cb, d[1], d[3])
            e = F.Expr('call', cs.callee, [F.Expr.of_operand(cb, a, 20) for a in cs.args], cs)
        out.append((cb, e))
    return out


def true_atoms(prog, b, node):
    """boolean expressions known to be true at CFG node `node`: [(body, Expr)]. Besides the dominating branch conditions
    themselves this looks into `opt.filter(|x| p(x))` being Some, `opt.is_some_and(|x| p(x))` / `.map(p).unwrap_or(false)` /
    `matches!` being true, and comparison facts (rendered as bin expressions, negated edges flipped)."""
    out = []

    def closures_in(e):
        for x in e.walk():
            if x.k == 'agg' and x.d == 'closure' and x.a in prog.bodies:
                yield x.a

    for c in F.dominating_conds(b, node):
        if c.kind == 'cmp':
            out.append((b, F.Expr('bin', c.op, c.lhs, c.rhs)))
        elif c.kind == 'bool':
            e = c.expr
            if c.truth:
                out.append((b, e))
                m = None
                for x in e.walk():
                    if x.k == 'call' and (PRED_TRUE_BOOL.search(x.a) or (x.c is not None and re.search(r'iter::Iterator::any$', x.c.declared))):
                        m = x
                    if x.k == 'call' and re.search(r'Option::<.*>::unwrap_or$', x.a) and len(x.b) == 2 and x.b[1].const_value() is False:
                        mm = x.b[0].mentions_call(r'Option::<.*>::map$')
                        if mm is not None:
                            m = mm
                if m is not None:
                    for cid in closures_in(m):
                        out += closure_results(prog, cid)
            else:
                out.append((b, F.Expr('un', 'Not', e)))
        elif c.kind == 'disc' and c.variant_is(1):
            m = c.expr.mentions_call(PRED_TRUE_SOME)
            if m is not None:
                for cid in closures_in(m):
                    out += closure_results(prog, cid)
    return out


def atom_is_cmp(e, xpred, ops, ypred):
    """is the (possibly let-wrapped) boolean expression a comparison X op Y in either orientation?"""
    while e.k == 'let':
        e = e.c
    if e.k == 'bin' and e.a in F.CMP_NEG:
        return cmp_is(F.Cond('cmp', op=e.a, lhs=e.b, rhs=e.c), xpred, ops, ypred)
    if e.k == 'call' and e.c is not None and len(e.b) == 2:
        d = e.c.declared
        op = {'lt': 'Lt', 'le': 'Le', 'gt': 'Gt', 'ge': 'Ge', 'eq': 'Eq', 'ne': 'Ne'}.get(d.rsplit('::', 1)[-1]) if re.search(r'cmp::Partial(Ord|Eq)::', d) else None
        if op:
            return cmp_is(F.Cond('cmp', op=op, lhs=e.b[0], rhs=e.b[1]), xpred, ops, ypred)
    return False


def duration_secs(prog, e):
    """whole seconds of a Duration expression: Duration::from_secs(<const>) / from_millis, or a named Duration constant
    (evaluated by the driver); None when it cannot be determined"""
    m = e.mentions_call(r'Duration::from_secs$')
    if m is not None and m.b:
        v = m.b[0].const_value()
        if v is None and m.b[0].strip().k == 'const' and m.b[0].strip().d in prog.consts:
            v = prog.const_val(m.b[0].strip().d)
        return v
    m = e.mentions_call(r'Duration::from_millis$')
    if m is not None and m.b and isinstance(m.b[0].const_value(), int):
        return m.b[0].const_value() / 1000.0
    st = e.strip()
    if st.k == 'const' and st.d in prog.consts:
        txt = prog.consts[st.d].get('txt', '')
        mm = re.search(r'secs: (\d+)_u64, nanos: [^(]*\((\d+)_u32', txt)
        if mm:
            return int(mm.group(1)) + int(mm.group(2)) / 1e9 if int(mm.group(2)) else int(mm.group(1))
    return None


def body_field_writes(b, adt, field):
    """writes to `adt::field` inside one (possibly inlined) body: [(bb, kind, thing)], kind as in field_writes"""
    tag = '.%s::%s' % (adt, field)
    out = []
    for bi, si, s in b.stmts():
        d = s['d']
        if tag in d[1:]:
            out.append((bi, 'assign', s))
        r = s['r']
        if r['k'] == 'ref' and r['m'] == 'mut' and tag in r['p'][1:]:
            idx = r['p'].index(tag)
            if '*' not in r['p'][idx + 1:]:
                out.append((bi, 'mut-borrow', s))
        if r['k'] == 'agg' and r.get('adt') == adt and field in (r.get('fields') or []):
            out.append((bi, 'aggregate', s))
    for bi, t in b.terms():
        if t['k'] == 'call' and tag in t['d'][1:]:
            out.append((bi, 'call-dest', t))
    return out


def element_region(prog, b, marker_rx):
    """the per-element step of a body, in whichever form it is written: a closure handed to map / filter_map / flat_map
    that contains a call matching marker_rx (Ok / Some / plain value = emit, Err / None = skip), or a loop of `b` around such a
    call that pushes what it emits and `continue`s / returns to skip.
    returns (body, [(bb, emitted Expr)], [rejecting Cond], is_from_element(expr) -> bool) or None"""
    rx = re.compile(marker_rx)
    for cs in b.calls():
        if not re.search(r'iter::Iterator::(map|filter_map|flat_map|try_for_each|for_each)$', cs.declared):
            continue
        for a in cs.args[1:]:
            for x in b.expr(a).walk():
                if x.k == 'agg' and x.d == 'closure' and x.a in prog.bodies and prog.bodies[x.a].calls(rx):
                    fm = prog.bodies[x.a]
                    emits = [(bb, fm.expr(st['r']['ops'][0])) for bb, st in success_returns(fm)]
                    if not emits:
                        emits = [(d[1], F.Expr.of_rvalue(fm, d[3]['r'], 20)) for d in fm.defs().get(0, []) if d[0] == 's']
                    return fm, emits, rejecting_conds(fm), (lambda e: any(y.k == 'param' for y in e.walk()))
    marks = b.calls(rx)
    loops = [(h, ns) for h, ns in source_loops(b) if marks and marks[0].bb in ns]
    if loops:
        h, ns = min(loops, key=lambda x: len(x[1]))
        pushes = [c for c in b.calls(r'Vec::<.*>::push$|VecDeque::<.*>::push_back$|HashMap::<.*>::insert$|BinaryHeap::<.*>::push$') if c.bb in ns]
        emits = [(c.bb, b.expr(c.args[-1])) for c in pushes]
        rej = []
        for n, e in b.edge_nodes().items():
            if e[0] not in ns:
                continue
            reach = b.reachable_from([n], {h})
            if not any(bb in reach for bb, _v in emits):
                rej.append(F.edge_cond(b, e))
        return b, emits, rej, (lambda e: mentions_next(e) is not None)
    return None


def wal_roles(prog, file='src/persistent_state.rs', entry_adt='persistent_state::WalEntry'):
    """(mac routine id, verify routine id) of the write-ahead log, found by what they do rather than by their names:
    the MAC routine takes a WalEntry and feeds a keyed MAC (Mac::update .. finalize); the verify routine returns bool, calls
    the MAC routine and compares its output with the entry's stored tag. Raises AnchorMissing when either is not found."""
    key = ('wal_roles', file)
    memo = getattr(prog, '_memo', None)
    if memo is None:
        memo = prog._memo = {}
    if key in memo:
        return memo[key]
    mac = ver = None
    short = entry_adt.rsplit('::', 1)[-1]
    cands = []
    for b in prog.bodies.in_files([file]):
        if b.parent or b.derived:
            continue
        if not any(short in b.local_ty(i) for i in range(1, b.argc + 1)):
            continue
        ups = b.calls(r'Mac>::update$|Mac::update$|Update>::update$')
        fin = b.calls(r'Mac>::finalize$|Mac::finalize$|::finalize$|::finalize_fixed$')
        if ups and fin:
            cands.append(b)
    if cands:
        mac = max(cands, key=lambda b: len(b.calls(r'Mac>::update$|Mac::update$|Update>::update$'))).id
    if mac is not None:
        for b in prog.bodies.in_files([file]):
            if b.parent or b.derived or b.local_ty(0) != 'bool':
                continue
            if any(c.callee == mac for c in b.calls()) and any('.hmac' in b.expr(a).show() for c in b.calls() for a in c.args):
                ver = b.id
    if mac is None or ver is None:
        raise F.AnchorMissing('WAL MAC routine / verify routine (a fn over WalEntry feeding Mac::update, and a bool fn comparing its output with entry.hmac)')
    memo[key] = (mac, ver)
    return mac, ver


# ------------------------------------------------------------------------------------------------
# container identity when containers live in fields of a small struct local (`frontier.queue`, `frontier.ids`)
# ------------------------------------------------------------------------------------------------

def _rep(body, l):
    ac = alias_classes(body)
    return min(ac.get(l, {l}))


def operand_key(body, op):
    """identity of the container an operand denotes: the alias-class representative of its root local, plus the first field
    name when the operand goes through a field of a struct local"""
    if not (isinstance(op, dict) and 'p' in op):
        return None
    return expr_key(body, body.expr(op))


def expr_key(body, e):
    st = e
    fld = None
    last_let = None
    for _ in range(30):
        if st.k == 'let':
            last_let = (st.a, fld)
            st = st.c
        elif st.k in ('ref', 'deref'):
            st = st.a
        elif st.k == 'call' and F.TRANSPARENT.match(st.a) and st.b:
            st = st.b[0]
        elif st.k == 'field':
            fld = st.b.rsplit('::', 1)[-1] if isinstance(st.b, str) else str(st.b)
            last_let = None
            st = st.a
        elif st.k == 'cast' and str(st.a).startswith('PointerCoercion'):
            st = st.b
        else:
            break
    if st.k in ('local', 'param') and isinstance(st.a, int) and st.a < len(body.locals):
        return (_rep(body, st.a), fld)
    if last_let is not None and isinstance(last_let[0], int) and last_let[0] < len(body.locals):
        # a named local that was made by a call / aggregate (`let queue = VecDeque::new()`): the local is the identity
        return (_rep(body, last_let[0]), last_let[1])
    return None


def expr_keys(body, e):
    """all container identities an expression mentions"""
    out = set()

    def rec(x, fld):
        k = x.k
        if k == 'let':
            # a named local: it is an identity itself, and so is what it was made from
            if isinstance(x.a, int) and x.a < len(body.locals):
                out.add((_rep(body, x.a), fld))
            rec(x.c, fld)
        elif k in ('local', 'param'):
            if isinstance(x.a, int) and x.a < len(body.locals):
                out.add((_rep(body, x.a), fld))
        elif k in ('ref', 'deref'):
            rec(x.a, fld)
        elif k == 'field':
            rec(x.a, x.b.rsplit('::', 1)[-1] if isinstance(x.b, str) else str(x.b))
        elif k == 'call':
            for a in x.b:
                rec(a, fld if F.TRANSPARENT.match(x.a) else None)
        elif k in ('index', 'downcast', 'disc', 'try', 'await'):
            rec(x.a, None)
        elif k == 'bin':
            rec(x.b, None)
            rec(x.c, None)
        elif k in ('un', 'cast'):
            rec(x.b, None)
        elif k == 'agg':
            for a in x.b:
                rec(a, None)
    rec(e, None)
    return out


def touches_keys(body, e, keys):
    return bool(expr_keys(body, e) & keys)
