// Fact extractor for the /verif static-analysis engine.
//
// A rustc driver (RUSTC_WORKSPACE_WRAPPER) that compiles the crate exactly as cargo asks and, for
// the crates named in VERIF_FACTS_CRATES (default: saorsa_core), dumps un-elaborated MIR
// (`mir_built`) plus type tables as JSON lines into VERIF_FACTS_OUT. No source text is matched; the
// facts come from the type-checked program.
#![feature(rustc_private)]

extern crate rustc_abi;
extern crate rustc_driver;
extern crate rustc_hir;
extern crate rustc_interface;
extern crate rustc_middle;
extern crate rustc_session;
extern crate rustc_span;

use rustc_driver::{Callbacks, Compilation};
use rustc_hir::def::DefKind;
use rustc_hir::def_id::{DefId, LocalDefId, LOCAL_CRATE};
use rustc_middle::mir::{
    AggregateKind, BinOp, Body, BorrowKind, CastKind, Const as MirConst, Operand, Place,
    ProjectionElem, Rvalue, StatementKind, TerminatorKind, UnOp,
};
use rustc_middle::ty::{self, Instance, Ty, TyCtxt, TypingEnv};
use rustc_span::{ExpnKind, Span};
use std::fmt::Write as _;

fn esc(s: &str) -> String {
    let mut o = String::with_capacity(s.len() + 2);
    o.push('"');
    for c in s.chars() {
        match c {
            '"' => o.push_str("\\\""),
            '\\' => o.push_str("\\\\"),
            '\n' => o.push_str("\\n"),
            '\r' => o.push_str("\\r"),
            '\t' => o.push_str("\\t"),
            c if (c as u32) < 0x20 => {
                let _ = write!(o, "\\u{:04x}", c as u32);
            }
            c => o.push(c),
        }
    }
    o.push('"');
    o
}

struct Cx<'tcx> {
    tcx: TyCtxt<'tcx>,
}

struct BodyCx<'a, 'tcx> {
    tcx: TyCtxt<'tcx>,
    body: &'a Body<'tcx>,
    def: LocalDefId,
    tenv: TypingEnv<'tcx>,
}

fn ty_str<'tcx>(ty: Ty<'tcx>) -> String {
    format!("{}", ty)
}

impl<'a, 'tcx> BodyCx<'a, 'tcx> {
    fn span_json(&self, sp: Span) -> String {
        // line of the root call site in user code, expansion flag, root macro name, desugaring kind
        let root = sp.source_callsite();
        let sm = self.tcx.sess.source_map();
        let line = sm.lookup_char_pos(root.lo()).line;
        let mut s = format!("\"ln\":{}", line);
        if sp.from_expansion() {
            s.push_str(",\"x\":1");
            let mut last_macro: Option<String> = None;
            for ed in sp.macro_backtrace() {
                if let ExpnKind::Macro(_, name) = ed.kind {
                    last_macro = Some(name.to_string());
                }
            }
            if let Some(m) = last_macro {
                let _ = write!(s, ",\"mx\":{}", esc(&m));
            }
            if let Some(dk) = sp.desugaring_kind() {
                let _ = write!(s, ",\"dk\":{}", esc(&format!("{:?}", dk)));
            }
        }
        s
    }

    fn place_json(&self, p: &Place<'tcx>) -> String {
        let mut s = format!("[{}", p.local.as_usize());
        let mut pty = rustc_middle::mir::PlaceTy::from_ty(self.body.local_decls[p.local].ty);
        for elem in p.projection.iter() {
            s.push(',');
            match elem {
                ProjectionElem::Deref => s.push_str("\"*\""),
                ProjectionElem::Field(f, _) => {
                    let mut done = false;
                    if let ty::Adt(adt, _) = pty.ty.kind() {
                        let vidx = pty.variant_index.unwrap_or(rustc_abi::FIRST_VARIANT);
                        if adt.is_enum() || adt.is_struct() || adt.is_union() {
                            if vidx.as_usize() < adt.variants().len() {
                                let v = adt.variant(vidx);
                                if f.as_usize() < v.fields.len() {
                                    let fname = v.fields[f].name.to_string();
                                    let an = self.tcx.def_path_str(adt.did());
                                    if adt.is_enum() {
                                        s.push_str(&esc(&format!(
                                            ".{}::{}::{}",
                                            an,
                                            v.name,
                                            fname
                                        )));
                                    } else {
                                        s.push_str(&esc(&format!(".{}::{}", an, fname)));
                                    }
                                    done = true;
                                }
                            }
                        }
                    }
                    if !done {
                        s.push_str(&esc(&format!(".::{}", f.as_usize())));
                    }
                }
                ProjectionElem::Index(l) => s.push_str(&esc(&format!("[_{}]", l.as_usize()))),
                ProjectionElem::ConstantIndex { offset, from_end, .. } => {
                    s.push_str(&esc(&format!("[{}#{}]", if from_end { "-" } else { "" }, offset)))
                }
                ProjectionElem::Subslice { from, to, from_end } => s.push_str(&esc(&format!(
                    "[{}:{}{}]",
                    from,
                    if from_end { "-" } else { "" },
                    to
                ))),
                ProjectionElem::Downcast(name, v) => {
                    let n = name.map(|n| n.to_string()).unwrap_or_else(|| format!("{}", v.as_usize()));
                    s.push_str(&esc(&format!("@{}", n)))
                }
                ProjectionElem::OpaqueCast(_) => s.push_str("\"opaque\""),
                ProjectionElem::UnwrapUnsafeBinder(_) => s.push_str("\"unbind\""),
            }
            pty = pty.projection_ty(self.tcx, elem);
        }
        s.push(']');
        s
    }

    fn fn_json(&self, did: DefId, args: ty::GenericArgsRef<'tcx>) -> String {
        let tcx = self.tcx;
        let mut s = String::new();
        let _ = write!(s, "{{\"fn\":{}", esc(&tcx.def_path_str(did)));
        let _ = write!(s, ",\"fa\":{}", esc(&tcx.def_path_str_with_args(did, args)));
        if did.krate == LOCAL_CRATE {
            s.push_str(",\"loc\":1");
        }
        // trait the declared item belongs to
        if let Some(tr) = tcx.trait_of_assoc(did) {
            let _ = write!(s, ",\"tr\":{}", esc(&tcx.def_path_str(tr)));
        }
        // resolve through trait dispatch when possible
        if matches!(tcx.def_kind(did), DefKind::Fn | DefKind::AssocFn) {
            if let Ok(Some(inst)) = Instance::try_resolve(tcx, self.tenv, did, args) {
                let rd = inst.def_id();
                if rd != did {
                    let _ = write!(s, ",\"r\":{}", esc(&tcx.def_path_str(rd)));
                    if rd.krate == LOCAL_CRATE {
                        s.push_str(",\"rloc\":1");
                    }
                }
            }
        }
        s.push('}');
        s
    }

    fn const_json(&self, c: &rustc_middle::mir::ConstOperand<'tcx>) -> String {
        let tcx = self.tcx;
        let ty = c.const_.ty();
        if let ty::FnDef(did, args) = ty.kind() {
            return self.fn_json(*did, args);
        }
        let mut s = String::new();
        let _ = write!(s, "{{\"c\":{},\"ty\":{}", esc(&format!("{}", c.const_)), esc(&ty_str(ty)));
        let scalar_ok = ty.is_integral() || ty.is_bool() || ty.is_char() || ty.is_floating_point();
        if scalar_ok {
            if let Some(si) = c.const_.try_eval_scalar_int(tcx, self.tenv) {
                let bits: u128 = si.to_bits_unchecked();
                let _ = write!(s, ",\"v\":\"{}\"", bits);
            }
        }
        // named constant?
        match c.const_ {
            MirConst::Unevaluated(uv, _) => {
                let _ = write!(s, ",\"named\":{}", esc(&tcx.def_path_str(uv.def)));
            }
            MirConst::Ty(_, ct) => {
                if let ty::ConstKind::Unevaluated(uv) = ct.kind() {
                    let _ = write!(s, ",\"named\":{}", esc(&tcx.def_path_str(uv.def)));
                }
            }
            _ => {}
        }
        s.push('}');
        s
    }

    fn op_json(&self, o: &Operand<'tcx>) -> String {
        match o {
            Operand::Copy(p) => format!("{{\"p\":{}}}", self.place_json(p)),
            Operand::Move(p) => format!("{{\"p\":{},\"m\":1}}", self.place_json(p)),
            Operand::Constant(c) => self.const_json(c),
            #[allow(unreachable_patterns)]
            _ => "{\"c\":\"?\"}".to_string(),
        }
    }

    fn rvalue_json(&self, rv: &Rvalue<'tcx>) -> String {
        let tcx = self.tcx;
        match rv {
            Rvalue::Use(o, ..) => format!("{{\"k\":\"use\",\"o\":{}}}", self.op_json(o)),
            Rvalue::Repeat(o, n) => {
                format!("{{\"k\":\"repeat\",\"o\":{},\"n\":{}}}", self.op_json(o), esc(&format!("{}", n)))
            }
            Rvalue::Ref(_, bk, p) => {
                let m = match bk {
                    BorrowKind::Shared => "shared",
                    BorrowKind::Fake(_) => "fake",
                    BorrowKind::Mut { .. } => "mut",
                };
                format!("{{\"k\":\"ref\",\"m\":\"{}\",\"p\":{}}}", m, self.place_json(p))
            }
            Rvalue::RawPtr(_, p) => format!("{{\"k\":\"rawptr\",\"p\":{}}}", self.place_json(p)),
            Rvalue::Cast(ck, o, ty) => {
                let cks = match ck {
                    CastKind::PointerCoercion(pc, _) => format!("PointerCoercion({:?})", pc),
                    other => format!("{:?}", other),
                };
                format!(
                    "{{\"k\":\"cast\",\"ck\":{},\"o\":{},\"ty\":{}}}",
                    esc(&cks),
                    self.op_json(o),
                    esc(&ty_str(*ty))
                )
            }
            Rvalue::BinaryOp(op, ab) => {
                let (a, b) = &**ab;
                let ops: &str = match op {
                    BinOp::Add => "Add",
                    BinOp::AddUnchecked => "Add",
                    BinOp::AddWithOverflow => "AddWithOverflow",
                    BinOp::Sub => "Sub",
                    BinOp::SubUnchecked => "Sub",
                    BinOp::SubWithOverflow => "SubWithOverflow",
                    BinOp::Mul => "Mul",
                    BinOp::MulUnchecked => "Mul",
                    BinOp::MulWithOverflow => "MulWithOverflow",
                    BinOp::Div => "Div",
                    BinOp::Rem => "Rem",
                    BinOp::BitXor => "BitXor",
                    BinOp::BitAnd => "BitAnd",
                    BinOp::BitOr => "BitOr",
                    BinOp::Shl => "Shl",
                    BinOp::ShlUnchecked => "Shl",
                    BinOp::Shr => "Shr",
                    BinOp::ShrUnchecked => "Shr",
                    BinOp::Eq => "Eq",
                    BinOp::Lt => "Lt",
                    BinOp::Le => "Le",
                    BinOp::Ne => "Ne",
                    BinOp::Ge => "Ge",
                    BinOp::Gt => "Gt",
                    BinOp::Cmp => "Cmp",
                    BinOp::Offset => "Offset",
                };
                format!(
                    "{{\"k\":\"bin\",\"op\":\"{}\",\"a\":{},\"b\":{}}}",
                    ops,
                    self.op_json(a),
                    self.op_json(b)
                )
            }
            Rvalue::UnaryOp(op, a) => {
                let ops = match op {
                    UnOp::Not => "Not",
                    UnOp::Neg => "Neg",
                    UnOp::PtrMetadata => "PtrMetadata",
                };
                format!("{{\"k\":\"un\",\"op\":\"{}\",\"a\":{}}}", ops, self.op_json(a))
            }
            Rvalue::Discriminant(p) => format!("{{\"k\":\"disc\",\"p\":{}}}", self.place_json(p)),
            Rvalue::Aggregate(ak, ops) => {
                let mut s = String::from("{\"k\":\"agg\"");
                match &**ak {
                    AggregateKind::Array(_) => s.push_str(",\"ak\":\"array\""),
                    AggregateKind::Tuple => s.push_str(",\"ak\":\"tuple\""),
                    AggregateKind::Adt(did, vidx, _, _, active) => {
                        let adt = tcx.adt_def(*did);
                        let v = adt.variant(*vidx);
                        let _ = write!(
                            s,
                            ",\"ak\":\"adt\",\"adt\":{},\"var\":{}",
                            esc(&tcx.def_path_str(*did)),
                            esc(&v.name.to_string())
                        );
                        s.push_str(",\"fields\":[");
                        if let Some(af) = active {
                            s.push_str(&esc(&v.fields[*af].name.to_string()));
                        } else {
                            for (i, f) in v.fields.iter().enumerate() {
                                if i > 0 {
                                    s.push(',');
                                }
                                s.push_str(&esc(&f.name.to_string()));
                            }
                        }
                        s.push(']');
                    }
                    AggregateKind::Closure(did, _) => {
                        let _ = write!(s, ",\"ak\":\"closure\",\"def\":{}", esc(&tcx.def_path_str(*did)));
                    }
                    AggregateKind::Coroutine(did, _) => {
                        let _ = write!(s, ",\"ak\":\"coroutine\",\"def\":{}", esc(&tcx.def_path_str(*did)));
                    }
                    AggregateKind::CoroutineClosure(did, _) => {
                        let _ = write!(
                            s,
                            ",\"ak\":\"coroutine_closure\",\"def\":{}",
                            esc(&tcx.def_path_str(*did))
                        );
                    }
                    AggregateKind::RawPtr(..) => s.push_str(",\"ak\":\"rawptr\""),
                }
                s.push_str(",\"ops\":[");
                for (i, o) in ops.iter().enumerate() {
                    if i > 0 {
                        s.push(',');
                    }
                    s.push_str(&self.op_json(o));
                }
                s.push_str("]}");
                s
            }
            Rvalue::CopyForDeref(p) => format!("{{\"k\":\"use\",\"o\":{{\"p\":{}}}}}", self.place_json(p)),
            Rvalue::ThreadLocalRef(d) => {
                format!("{{\"k\":\"tls\",\"def\":{}}}", esc(&tcx.def_path_str(*d)))
            }
            #[allow(unreachable_patterns)]
            _ => "{\"k\":\"other\"}".to_string(),
        }
    }

    fn body_json(&self, out: &mut String) {
        let tcx = self.tcx;
        let body = self.body;
        let did = self.def.to_def_id();
        let sm = tcx.sess.source_map();
        let sp = body.span;
        let lo = sm.lookup_char_pos(sp.lo());
        let hi = sm.lookup_char_pos(sp.hi());
        let file = match &lo.file.name {
            rustc_span::FileName::Real(r) => format!("{}", r.path(rustc_span::RemapPathScopeComponents::DIAGNOSTICS).display()),
            other => format!("{:?}", other),
        };
        let dk = tcx.def_kind(did);
        let _ = write!(out, "{{\"k\":\"body\",\"id\":{}", esc(&tcx.def_path_str(did)));
        let _ = write!(out, ",\"dk\":{}", esc(&format!("{:?}", dk)));
        let _ = write!(out, ",\"file\":{},\"lo\":{},\"hi\":{}", esc(&file), lo.line, hi.line);
        if body.coroutine.is_some() {
            out.push_str(",\"coroutine\":1");
        }
        // parent body (closures / async blocks)
        let tdid = tcx.typeck_root_def_id(did);
        if tdid != did {
            let _ = write!(out, ",\"root\":{}", esc(&tcx.def_path_str(tdid)));
            let p = tcx.parent(did);
            let _ = write!(out, ",\"parent\":{}", esc(&tcx.def_path_str(p)));
        }
        if matches!(dk, DefKind::Fn | DefKind::AssocFn) {
            let vis = tcx.visibility(did);
            let _ = write!(out, ",\"pub\":{}", if vis.is_public() { 1 } else { 0 });
            if tcx.asyncness(did).is_async() {
                out.push_str(",\"async\":1");
            }
        }
        if matches!(dk, DefKind::AssocFn) {
            let p = tcx.parent(did);
            match tcx.def_kind(p) {
                DefKind::Impl { .. } => {
                    let st = tcx.type_of(p).instantiate_identity().skip_norm_wip();
                    let _ = write!(out, ",\"impl_self\":{}", esc(&ty_str(st)));
                    if let Some(tr) = tcx.impl_opt_trait_ref(p) {
                        let trr = tr.instantiate_identity().skip_norm_wip();
                        let _ = write!(out, ",\"impl_trait\":{}", esc(&tcx.def_path_str(trr.def_id)));
                    }
                }
                DefKind::Trait => {
                    let _ = write!(out, ",\"in_trait\":{}", esc(&tcx.def_path_str(p)));
                }
                _ => {}
            }
        }
        {
            // bodies of #[automatically_derived] impls (derive(Clone, Serialize, ...))
            let rp = tcx.parent(tdid);
            if matches!(tcx.def_kind(rp), DefKind::Impl { .. }) && tcx.is_automatically_derived(rp) {
                out.push_str(",\"derived\":1");
            }
        }
        let _ = write!(out, ",\"argc\":{}", body.arg_count);
        // locals
        out.push_str(",\"locals\":[");
        let mut names: Vec<Option<String>> = vec![None; body.local_decls.len()];
        for vdi in body.var_debug_info.iter() {
            if let rustc_middle::mir::VarDebugInfoContents::Place(p) = &vdi.value {
                if p.projection.is_empty() {
                    names[p.local.as_usize()] = Some(vdi.name.to_string());
                }
            }
        }
        for (i, ld) in body.local_decls.iter().enumerate() {
            if i > 0 {
                out.push(',');
            }
            let _ = write!(out, "{{\"ty\":{}", esc(&ty_str(ld.ty)));
            if let Some(n) = &names[i] {
                let _ = write!(out, ",\"n\":{}", esc(n));
            }
            out.push('}');
        }
        out.push(']');
        // upvar names for closures (debug info with projections on _1)
        out.push_str(",\"upvars\":[");
        let mut first = true;
        for vdi in body.var_debug_info.iter() {
            if let rustc_middle::mir::VarDebugInfoContents::Place(p) = &vdi.value {
                if !p.projection.is_empty() {
                    if !first {
                        out.push(',');
                    }
                    first = false;
                    let _ = write!(out, "{{\"n\":{},\"p\":{}}}", esc(&vdi.name.to_string()), self.place_json(p));
                }
            }
        }
        out.push(']');
        // blocks
        out.push_str(",\"blocks\":[");
        for (bi, bb) in body.basic_blocks.iter().enumerate() {
            if bi > 0 {
                out.push(',');
            }
            out.push_str("{\"s\":[");
            let mut firsts = true;
            for st in bb.statements.iter() {
                if let StatementKind::Assign(bx) = &st.kind {
                    let (pl, rv) = &**bx;
                    if !firsts {
                        out.push(',');
                    }
                    firsts = false;
                    let _ = write!(
                        out,
                        "{{\"d\":{},\"r\":{},{}}}",
                        self.place_json(pl),
                        self.rvalue_json(rv),
                        self.span_json(st.source_info.span)
                    );
                }
            }
            out.push_str("],\"t\":");
            let term = bb.terminator();
            let spj = self.span_json(term.source_info.span);
            match &term.kind {
                TerminatorKind::Goto { target } => {
                    let _ = write!(out, "{{\"k\":\"goto\",\"t\":{},{}}}", target.as_usize(), spj);
                }
                TerminatorKind::SwitchInt { discr, targets } => {
                    let _ = write!(out, "{{\"k\":\"switch\",\"d\":{},\"v\":[", self.op_json(discr));
                    for (i, (v, t)) in targets.iter().enumerate() {
                        if i > 0 {
                            out.push(',');
                        }
                        let _ = write!(out, "[\"{}\",{}]", v, t.as_usize());
                    }
                    let _ = write!(out, "],\"o\":{},{}}}", targets.otherwise().as_usize(), spj);
                }
                TerminatorKind::UnwindResume => out.push_str("{\"k\":\"resume\"}"),
                TerminatorKind::UnwindTerminate(_) => out.push_str("{\"k\":\"terminate\"}"),
                TerminatorKind::Return => {
                    let _ = write!(out, "{{\"k\":\"ret\",{}}}", spj);
                }
                TerminatorKind::Unreachable => out.push_str("{\"k\":\"unreachable\"}"),
                TerminatorKind::Drop { place, target, .. } => {
                    let _ = write!(
                        out,
                        "{{\"k\":\"drop\",\"p\":{},\"t\":{},{}}}",
                        self.place_json(place),
                        target.as_usize(),
                        spj
                    );
                }
                TerminatorKind::Call { func, args, destination, target, fn_span, .. } => {
                    let _ = write!(out, "{{\"k\":\"call\",\"f\":{},\"args\":[", self.op_json(func));
                    for (i, a) in args.iter().enumerate() {
                        if i > 0 {
                            out.push(',');
                        }
                        out.push_str(&self.op_json(&a.node));
                    }
                    let _ = write!(out, "],\"d\":{}", self.place_json(destination));
                    match target {
                        Some(t) => {
                            let _ = write!(out, ",\"t\":{}", t.as_usize());
                        }
                        None => out.push_str(",\"t\":null"),
                    }
                    let _ = write!(out, ",{}", self.span_json(*fn_span));
                    out.push('}');
                }
                TerminatorKind::TailCall { func, .. } => {
                    let _ = write!(out, "{{\"k\":\"tailcall\",\"f\":{},{}}}", self.op_json(func), spj);
                }
                TerminatorKind::Assert { cond, expected, msg, target, .. } => {
                    let m = format!("{:?}", msg);
                    let kind = m.split(|c: char| c == '(' || c == ' ' || c == '{').next().unwrap_or("").to_string();
                    let _ = write!(
                        out,
                        "{{\"k\":\"assert\",\"c\":{},\"e\":{},\"m\":{},\"mm\":{},\"t\":{},{}}}",
                        self.op_json(cond),
                        if *expected { 1 } else { 0 },
                        esc(&kind),
                        esc(&m),
                        target.as_usize(),
                        spj
                    );
                }
                TerminatorKind::Yield { value, resume, drop, .. } => {
                    let _ = write!(
                        out,
                        "{{\"k\":\"yield\",\"o\":{},\"t\":{},\"drop\":{},{}}}",
                        self.op_json(value),
                        resume.as_usize(),
                        drop.map(|d| d.as_usize().to_string()).unwrap_or_else(|| "null".into()),
                        spj
                    );
                }
                TerminatorKind::CoroutineDrop => out.push_str("{\"k\":\"cordrop\"}"),
                TerminatorKind::FalseEdge { real_target, imaginary_target } => {
                    let _ = write!(
                        out,
                        "{{\"k\":\"goto\",\"t\":{},\"fe\":{},{}}}",
                        real_target.as_usize(),
                        imaginary_target.as_usize(),
                        spj
                    );
                }
                TerminatorKind::FalseUnwind { real_target, .. } => {
                    let _ = write!(out, "{{\"k\":\"goto\",\"t\":{},\"fu\":1,{}}}", real_target.as_usize(), spj);
                }
                TerminatorKind::InlineAsm { .. } => out.push_str("{\"k\":\"asm\"}"),
            }
            if bb.is_cleanup {
                out.push_str(",\"cl\":1");
            }
            out.push('}');
        }
        out.push_str("]}\n");
    }
}

impl<'tcx> Cx<'tcx> {
    fn dump(&self, out: &mut String) {
        let tcx = self.tcx;
        let crate_name = tcx.crate_name(LOCAL_CRATE).to_string();
        let nonce = std::env::var("VERIF_FACTS_NONCE").unwrap_or_default();
        let _ = write!(
            out,
            "{{\"k\":\"meta\",\"crate\":{},\"nonce\":{},\"debug_assertions\":{},\"rustc\":{}}}\n",
            esc(&crate_name),
            esc(&nonce),
            if tcx.sess.opts.debug_assertions { 1 } else { 0 },
            esc(option_env!("CFG_VERSION").unwrap_or("nightly"))
        );
        // Clone every built body first: later queries (const evaluation, instance resolution) may
        // run borrowck on some bodies, which steals `mir_built`.
        let mut bodies: Vec<(LocalDefId, Body<'tcx>)> = Vec::new();
        let mut stolen: Vec<String> = Vec::new();
        let mut skipped: Vec<String> = Vec::new();
        for def in tcx.hir_body_owners() {
            let did = def.to_def_id();
            let dk = tcx.def_kind(did);
            if !matches!(
                dk,
                DefKind::Fn | DefKind::AssocFn | DefKind::Closure | DefKind::SyntheticCoroutineBody
            ) {
                continue;
            }
            let steal = tcx.mir_built(def);
            if steal.is_stolen() {
                // a const fn evaluated while building another body: its built MIR is gone; use the
                // CTFE MIR (elaborated) and say so.
                if tcx.is_const_fn(did) {
                    let mir = tcx.mir_for_ctfe(did).clone();
                    stolen.push(tcx.def_path_str(did));
                    bodies.push((def, mir));
                } else {
                    skipped.push(tcx.def_path_str(did));
                }
                continue;
            }
            let mir = steal.borrow().clone();
            bodies.push((def, mir));
        }
        // ---- ADTs, impls, consts, traits
        let mut n_adt = 0;
        for id in tcx.hir_crate_items(()).definitions() {
            let did = id.to_def_id();
            match tcx.def_kind(did) {
                DefKind::Struct | DefKind::Enum | DefKind::Union => {
                    n_adt += 1;
                    let adt = tcx.adt_def(did);
                    let sp = tcx.def_span(did);
                    let sm = tcx.sess.source_map();
                    let lo = sm.lookup_char_pos(sp.lo());
                    let file = match &lo.file.name {
                        rustc_span::FileName::Real(r) => format!("{}", r.path(rustc_span::RemapPathScopeComponents::DIAGNOSTICS).display()),
                        other => format!("{:?}", other),
                    };
                    let _ = write!(
                        out,
                        "{{\"k\":\"adt\",\"path\":{},\"kind\":\"{}\",\"file\":{},\"ln\":{}",
                        esc(&tcx.def_path_str(did)),
                        if adt.is_enum() { "enum" } else if adt.is_union() { "union" } else { "struct" },
                        esc(&file),
                        lo.line
                    );
                    let generics = tcx.generics_of(did);
                    let _ = write!(out, ",\"generics\":{}", generics.count());
                    if generics.count() == 0 {
                        let t = tcx.type_of(did).instantiate_identity().skip_norm_wip();
                        let tenv = TypingEnv::post_analysis(tcx, did);
                        let _ = write!(out, ",\"freeze\":{}", if t.is_freeze(tcx, tenv) { 1 } else { 0 });
                    }
                    out.push_str(",\"variants\":[");
                    for (vi, v) in adt.variants().iter().enumerate() {
                        if vi > 0 {
                            out.push(',');
                        }
                        let _ = write!(out, "{{\"name\":{},\"fields\":[", esc(&v.name.to_string()));
                        for (fi, f) in v.fields.iter().enumerate() {
                            if fi > 0 {
                                out.push(',');
                            }
                            let fty = tcx.type_of(f.did).instantiate_identity().skip_norm_wip();
                            let _ = write!(
                                out,
                                "{{\"name\":{},\"ty\":{},\"pub\":{}}}",
                                esc(&f.name.to_string()),
                                esc(&ty_str(fty)),
                                if f.vis.is_public() { 1 } else { 0 }
                            );
                        }
                        out.push_str("]}");
                    }
                    out.push_str("]}\n");
                }
                DefKind::Impl { .. } => {
                    let st = tcx.type_of(did).instantiate_identity().skip_norm_wip();
                    let _ = write!(out, "{{\"k\":\"impl\",\"self_ty\":{}", esc(&ty_str(st)));
                    if let Some(tr) = tcx.impl_opt_trait_ref(did) {
                        let trr = tr.instantiate_identity().skip_norm_wip();
                        let _ = write!(out, ",\"trait\":{}", esc(&tcx.def_path_str(trr.def_id)));
                        let _ = write!(out, ",\"trait_ref\":{}", esc(&format!("{}", trr)));
                    }
                    if tcx.is_automatically_derived(did) {
                        out.push_str(",\"derived\":1");
                    }
                    out.push_str(",\"items\":[");
                    for (i, it) in tcx.associated_items(did).in_definition_order().enumerate() {
                        if i > 0 {
                            out.push(',');
                        }
                        let _ = write!(
                            out,
                            "{{\"name\":{},\"def\":{}}}",
                            esc(&it.opt_name().map(|n| n.to_string()).unwrap_or_default()),
                            esc(&tcx.def_path_str(it.def_id))
                        );
                    }
                    out.push_str("]}\n");
                }
                DefKind::Const { .. } | DefKind::AssocConst { .. } => {
                    let generics = tcx.generics_of(did);
                    if generics.count() == 0 && !matches!(tcx.def_kind(tcx.parent(did)), DefKind::Trait) {
                        let t = tcx.type_of(did).instantiate_identity().skip_norm_wip();
                        let _ = write!(
                            out,
                            "{{\"k\":\"const\",\"path\":{},\"ty\":{}",
                            esc(&tcx.def_path_str(did)),
                            esc(&ty_str(t))
                        );
                        if t.is_integral() || t.is_bool() || t.is_floating_point() || t.is_char() {
                            if let Ok(val) = tcx.const_eval_poly(did) {
                                if let Some(si) = val.try_to_scalar_int() {
                                    let _ = write!(out, ",\"v\":\"{}\"", si.to_bits_unchecked());
                                }
                            }
                        } else if let ty::Adt(..) = t.kind() {
                            // struct-valued constants (Duration, ...): the evaluated value, pretty-printed
                            if let Ok(val) = tcx.const_eval_poly(did) {
                                let txt = format!("{}", rustc_middle::mir::Const::Val(val, t));
                                if txt.len() < 400 {
                                    let _ = write!(out, ",\"txt\":{}", esc(&txt));
                                }
                            }
                        } else if let ty::Ref(_, inner, _) = t.kind() {
                            if inner.is_str() {
                                if let Ok(val) = tcx.const_eval_poly(did) {
                                    if !matches!(
                                        val,
                                        rustc_middle::mir::ConstValue::Scalar(_)
                                            | rustc_middle::mir::ConstValue::ZeroSized
                                    ) {
                                        if let Some(bytes) = val.try_get_slice_bytes_for_diagnostics(tcx) {
                                            let sv = String::from_utf8_lossy(bytes).to_string();
                                            let _ = write!(out, ",\"s\":{}", esc(&sv));
                                        }
                                    }
                                }
                            }
                        }
                        out.push_str("}\n");
                    }
                }
                _ => {}
            }
        }
        // ---- bodies
        let mut n_body = 0;
        for (def, mir) in bodies.iter() {
            let def = *def;
            let did = def.to_def_id();
            let bcx = BodyCx { tcx, body: mir, def, tenv: TypingEnv::post_analysis(tcx, did) };
            bcx.body_json(out);
            n_body += 1;
        }
        let _ = write!(
            out,
            "{{\"k\":\"end\",\"bodies\":{},\"adts\":{},\"ctfe_bodies\":[{}],\"skipped\":[{}]}}\n",
            n_body,
            n_adt,
            stolen.iter().map(|s| esc(s)).collect::<Vec<_>>().join(","),
            skipped.iter().map(|s| esc(s)).collect::<Vec<_>>().join(",")
        );
    }
}

struct Cb {
    crates: Vec<String>,
    out: Option<String>,
}

impl Callbacks for Cb {
    fn after_expansion<'tcx>(
        &mut self,
        _compiler: &rustc_interface::interface::Compiler,
        tcx: TyCtxt<'tcx>,
    ) -> Compilation {
        let name = tcx.crate_name(LOCAL_CRATE).to_string();
        if let Some(outp) = &self.out {
            if self.crates.iter().any(|c| c == &name) {
                // only lib-like crates: skip build scripts (crate name build_script_build)
                let mut s = String::with_capacity(64 << 20);
                Cx { tcx }.dump(&mut s);
                let tmp = format!("{}.tmp.{}", outp, std::process::id());
                std::fs::write(&tmp, s.as_bytes()).expect("write facts");
                std::fs::rename(&tmp, outp).expect("rename facts");
            }
        }
        Compilation::Continue
    }
}

fn main() {
    // RUSTC_WORKSPACE_WRAPPER: argv = [driver, rustc, args...]
    let mut args: Vec<String> = std::env::args().collect();
    if args.len() > 1 && (args[1].ends_with("rustc") || args[1].contains("/rustc")) {
        args.remove(1);
    }
    let crates = std::env::var("VERIF_FACTS_CRATES")
        .unwrap_or_else(|_| "saorsa_core".to_string())
        .split(',')
        .map(|s| s.to_string())
        .collect();
    let out = std::env::var("VERIF_FACTS_OUT").ok();
    let mut cb = Cb { crates, out };
    rustc_driver::run_compiler(&args, &mut cb);
}
